import RedactVerif.Proofs.Scan
import RedactVerif.Proofs.Tokens
import RedactVerif.Props.FactsConsts
import RedactVerif.Props.TransMarkers
import RedactVerif.Proofs.Canon
/-
C07 — Redact and StripMarkers are exact, idempotent projections.

Token-level theorems about `redactT` / `stripT` (the Go regexps' ReplaceAll
semantics, transcribed in Model/Markers.lean; that Go's regexp engine agrees
with the transcription on bytes is checked by the exhaustive correspondence,
not proved).

FULL STATEMENT not proved (false of the code): "on arbitrary strings
StripMarkers leaves no marker character". `strip_can_reassemble_marker`
proves the negation on the witness of known finding D4; what is proved
instead is that no marker *token* survives (`stripT_no_marker`), i.e. the
delimiters are removed exactly.
-/
namespace Redact

/-- The exact meaning of redaction on a well-formed string: every envelope,
and nothing else, becomes `‹×›`; no token of any envelope's content survives. -/
def blank : Bool → List Tok → List Tok
  | _, [] => []
  | false, .s :: r => .s :: (crossT ++ .e :: blank true r)
  | true, .e :: r => blank false r
  | true, _ :: r => blank true r
  | false, t :: r => t :: blank false r

/-- On the rest of an open envelope of a well-formed string, the pending
candidate match of `Redact` succeeds and the content is dropped. -/
theorem redactAux_eq_blank (t : List Tok) :
    (scanWFFrom false t = some false → redactAux none t = blank false t) ∧
    (∀ acc, scanWFFrom true t = some false → .s :: (crossT ++ .e :: blank true t) = redactAux (some acc) t) := by
  induction t with
  | nil => constructor <;> simp [scanWFFrom, redactAux, blank]
  | cons x r ih =>
    constructor
    · intro h
      cases x with
      | s => simp only [scanWFFrom] at h; simp only [redactAux, blank]; exact (ih.2 [] h).symm
      | e => simp [scanWFFrom] at h
      | b y => simp only [scanWFFrom] at h; simp [redactAux, blank, ih.1 h]
    · intro acc h
      cases x with
      | s => simp [scanWFFrom] at h
      | e => simp only [scanWFFrom] at h; simp [redactAux, blank, ih.1 h]
      | b y => simp only [scanWFFrom] at h; simp only [redactAux, blank]; exact ih.2 _ h

/-- **Exactness of `Redact`** on well-formed redactables. -/
theorem redactT_exact (t : List Tok) (h : WF t) : redactT t = blank false t :=
  (redactAux_eq_blank t).1 h

theorem blank_wf (t : List Tok) :
    (scanWFFrom false t = some false → scanWFFrom false (blank false t) = some false) ∧
    (scanWFFrom true t = some false → scanWFFrom false (blank true t) = some false) := by
  induction t with
  | nil => constructor <;> simp [scanWFFrom, blank]
  | cons x r ih =>
    constructor
    · intro h
      cases x with
      | s => simp only [scanWFFrom] at h; simp [blank, scanWFFrom, crossT, ih.2 h]
      | e => simp [scanWFFrom] at h
      | b y => simp only [scanWFFrom] at h; simp [blank, scanWFFrom, ih.1 h]
    · intro h
      cases x with
      | s => simp [scanWFFrom] at h
      | e => simp only [scanWFFrom] at h; simp [blank, ih.1 h]
      | b y => simp only [scanWFFrom] at h; simp [blank, ih.2 h]

/-- The redacted form of a well-formed redactable is well-formed. -/
theorem redactT_wf (t : List Tok) (h : WF t) : WF (redactT t) := by
  rw [redactT_exact t h]; exact (blank_wf t).1 h

/-- Safe text (what is outside envelopes), on well-formed input. -/
def outside : Bool → List Tok → List Tok
  | _, [] => []
  | false, .s :: r => outside true r
  | true, .e :: r => outside false r
  | true, _ :: r => outside true r
  | false, t :: r => t :: outside false r

/-- Redaction keeps the safe text, in the same order. -/
theorem outside_blank (t : List Tok) :
    (scanWFFrom false t = some false → outside false (blank false t) = outside false t) ∧
    (scanWFFrom true t = some false → outside false (blank true t) = outside true t) := by
  induction t with
  | nil => constructor <;> simp [blank, outside]
  | cons x r ih =>
    constructor
    · intro h
      cases x with
      | s => simp only [scanWFFrom] at h; simp [blank, outside, crossT, ih.2 h]
      | e => simp [scanWFFrom] at h
      | b y => simp only [scanWFFrom] at h; simp [blank, outside, ih.1 h]
    · intro h
      cases x with
      | s => simp [scanWFFrom] at h
      | e => simp only [scanWFFrom] at h; simp [blank, outside, ih.1 h]
      | b y => simp only [scanWFFrom] at h; simp [blank, outside, ih.2 h]

theorem redactT_same_safe_text (t : List Tok) (h : WF t) :
    outside false (redactT t) = outside false t := by
  rw [redactT_exact t h]; exact (outside_blank t).1 h

def countS : List Tok → Nat
  | [] => 0
  | .s :: r => countS r + 1
  | _ :: r => countS r

theorem countS_append (a b : List Tok) : countS (a ++ b) = countS a + countS b := by
  induction a with
  | nil => simp [countS]
  | cons x r ih => cases x <;> simp [countS, ih] <;> omega

/-- Redaction keeps the number of envelopes. -/
theorem countS_blank (t : List Tok) :
    (scanWFFrom false t = some false → countS (blank false t) = countS t) ∧
    (scanWFFrom true t = some false → countS (blank true t) = countS t) := by
  induction t with
  | nil => constructor <;> simp [blank, countS]
  | cons x r ih =>
    constructor
    · intro h
      cases x with
      | s => simp only [scanWFFrom] at h; simp [blank, countS, crossT, ih.2 h]
      | e => simp [scanWFFrom] at h
      | b y => simp only [scanWFFrom] at h; simp [blank, countS, ih.1 h]
    · intro h
      cases x with
      | s => simp [scanWFFrom] at h
      | e => simp only [scanWFFrom] at h; simp [blank, countS, ih.1 h]
      | b y => simp only [scanWFFrom] at h; simp [blank, countS, ih.2 h]

theorem redactT_count (t : List Tok) (h : WF t) : countS (redactT t) = countS t := by
  rw [redactT_exact t h]; exact (countS_blank t).1 h

/-- Redacting a redacted well-formed string changes nothing. -/
theorem blank_blank (t : List Tok) :
    (scanWFFrom false t = some false → blank false (blank false t) = blank false t) ∧
    (scanWFFrom true t = some false → blank false (blank true t) = blank true t) := by
  induction t with
  | nil => constructor <;> simp [blank]
  | cons x r ih =>
    constructor
    · intro h
      cases x with
      | s => simp only [scanWFFrom] at h; simp [blank, crossT, ih.2 h]
      | e => simp [scanWFFrom] at h
      | b y => simp only [scanWFFrom] at h; simp [blank, ih.1 h]
    · intro h
      cases x with
      | s => simp [scanWFFrom] at h
      | e => simp only [scanWFFrom] at h; simp [blank, ih.1 h]
      | b y => simp only [scanWFFrom] at h; simp [blank, ih.2 h]

theorem redactT_idem_wf (t : List Tok) (h : WF t) : redactT (redactT t) = redactT t := by
  have h2 := redactT_wf t h
  rw [redactT_exact _ h2, redactT_exact t h]
  exact (blank_blank t).1 h

/-! ### `Redact` is idempotent on *arbitrary* token lists -/

def allPlain : List Tok → Bool
  | [] => true
  | .b _ :: r => allPlain r
  | _ :: _ => false

theorem redactAux_plain (a0 p : List Tok) (hp : allPlain p = true) (rest : List Tok) :
    redactAux (some a0) (p ++ rest) = redactAux (some (p.reverse ++ a0)) rest := by
  induction p generalizing a0 with
  | nil => simp
  | cons x r ih =>
    cases x with
    | b y => simp only [allPlain] at hp; simp [redactAux, ih _ hp]
    | s => simp [allPlain] at hp
    | e => simp [allPlain] at hp

theorem allPlain_reverse (p : List Tok) (h : allPlain p = true) : allPlain p.reverse = true := by
  have app : ∀ a b : List Tok, allPlain a = true → allPlain b = true → allPlain (a ++ b) = true := by
    intro a b ha hb
    induction a with
    | nil => simpa using hb
    | cons x r ih => cases x <;> simp_all [allPlain]
  induction p with
  | nil => rfl
  | cons x r ih =>
    cases x with
    | b y => simp only [allPlain] at h; simp only [List.reverse_cons]; exact app _ _ (ih h) (by simp [allPlain])
    | s => simp [allPlain] at h
    | e => simp [allPlain] at h

/-- The general statement carried through the induction: whatever candidate
match is pending (with plain tokens accumulated), re-redacting the output
reproduces it. -/
theorem redactAux_idem (t : List Tok) :
    redactAux none (redactAux none t) = redactAux none t ∧
    (∀ acc, allPlain acc = true → redactAux none (redactAux (some acc) t) = redactAux (some acc) t) := by
  induction t with
  | nil =>
    refine ⟨by simp [redactAux], fun acc hacc => ?_⟩
    simp only [redactAux]
    have := redactAux_plain [] acc.reverse (allPlain_reverse acc hacc) []
    simp only [List.append_nil, List.reverse_reverse] at this
    rw [this]; simp [redactAux]
  | cons x r ih =>
    constructor
    · cases x with
      | s => simp only [redactAux]; exact ih.2 [] rfl
      | e => simp [redactAux, ih.1]
      | b y => simp [redactAux, ih.1]
    · intro acc hacc
      cases x with
      | b y => simp only [redactAux]; exact ih.2 _ (by simp [allPlain, hacc])
      | e =>
        simp [redactAux, crossT, ih.1]
      | s =>
        simp only [redactAux]
        have h1 := redactAux_plain [] acc.reverse (allPlain_reverse acc hacc) (redactAux (some []) r)
        rw [h1]
        -- the flushed candidate is followed by the output of the next candidate, which starts with `s`
        have hs : ∃ X, redactAux (some []) r = .s :: X := by
          have gen : ∀ (u : List Tok) (a : List Tok), ∃ X, redactAux (some a) u = .s :: X := by
            intro u
            induction u with
            | nil => intro a; exact ⟨_, rfl⟩
            | cons z w ihw =>
              intro a
              cases z with
              | s => exact ⟨_, rfl⟩
              | e => exact ⟨_, rfl⟩
              | b q => simp only [redactAux]; exact ihw _
          exact gen r []
        obtain ⟨X, hX⟩ := hs
        have h2 := ih.2 [] rfl
        rw [hX] at h2 ⊢
        simp only [redactAux] at h2 ⊢
        simp [h2]

/-- **`Redact` is idempotent on every string, even ill-formed ones.** -/
theorem redactT_idem (t : List Tok) : redactT (redactT t) = redactT t := (redactAux_idem t).1

/-! ### StripMarkers -/

/-- `StripMarkers` removes every delimiter… -/
theorem stripT_no_marker (t : List Tok) : ∀ x ∈ stripT t, x.isMarker = false := by
  induction t with
  | nil => simp [stripT]
  | cons y r ih => cases y <;> simp [stripT, Tok.isMarker] <;> exact ih

/-- …and nothing else: the plain tokens are kept, in order. -/
theorem stripT_eq_filter (t : List Tok) : stripT t = t.filter (fun x => !x.isMarker) := by
  induction t with
  | nil => simp [stripT]
  | cons y r ih => cases y <;> simp [stripT, Tok.isMarker, ih]

theorem stripT_idem (t : List Tok) : stripT (stripT t) = stripT t := by
  induction t with
  | nil => simp [stripT]
  | cons y r ih => cases y <;> simp [stripT, ih]

/-- Known finding D4 as a theorem about the model (which the correspondence
ties to the regexp-based Go code): on an ill-formed input with partial-marker
bytes around a delimiter, removing exactly the delimiters re-assembles a marker. -/
theorem strip_can_reassemble_marker :
    stripMarkers ([0xE2] ++ startB ++ [0x80, 0xB9]) = startB := by decide

/-- Redact and StripMarkers distribute over concatenation at a point outside any envelope. -/
theorem redactT_append_wf (a b : List Tok) (ha : WF a) : redactT (a ++ b) = redactT a ++ redactT b := by
  have gen : ∀ (a : List Tok),
      (scanWFFrom false a = some false → redactAux none (a ++ b) = redactAux none a ++ redactAux none b) ∧
      (∀ acc, scanWFFrom true a = some false → redactAux (some acc) (a ++ b) = redactAux (some acc) a ++ redactAux none b) := by
    intro a
    induction a with
    | nil => constructor <;> simp [scanWFFrom, redactAux]
    | cons t r ih =>
      constructor
      · intro h
        cases t with
        | s => simp only [scanWFFrom] at h; simp [redactAux, ih.2 [] h]
        | e => simp [scanWFFrom] at h
        | b x => simp only [scanWFFrom] at h; simp [redactAux, ih.1 h]
      · intro acc h
        cases t with
        | s => simp [scanWFFrom] at h
        | e => simp only [scanWFFrom] at h; simp [redactAux, ih.1 h]
        | b x => simp only [scanWFFrom] at h; simp [redactAux, ih.2 _ h]
  exact (gen a).1 ha

/-! Non-vacuity -/
example : WF (tokenize ([0x61] ++ startB ++ [0x62, 0x0A] ++ endB ++ [0x63])) := by decide
example : redact ([0x61] ++ startB ++ [0x62, 0x0A] ++ endB ++ [0x63]) = [0x61] ++ redactedB ++ [0x63] := by decide
example : redact (startB ++ [0x61] ++ startB ++ [0x62] ++ endB ++ endB) = startB ++ [0x61] ++ redactedB ++ endB := by decide

/-! ### At the level of byte strings

The theorems above are about token lists; the library's functions take and return byte strings
(`redact l = untok (redactT (tokenize l))`). They compose on strings because the token reading of `Redact(l)` *is*
`redactT (tokenize l)` (`tokenize_redact`, Proofs/Canon.lean: token readings are canonical and `redactT` keeps them
so). `StripMarkers` does not have this property: that is known finding D4 (`strip_can_reassemble_marker`). -/

/-- **Redact is idempotent on every byte string**, well-formed or not. -/
theorem redact_idem (l : List Byte) : redact (redact l) = redact l := by
  show untok (redactT (tokenize (redact l))) = untok (redactT (tokenize l))
  rw [tokenize_redact, redactT_idem]

/-- On a well-formed string the result of `Redact` is well-formed, has the same safe text and as many envelopes. -/
theorem redact_wf (l : List Byte) (h : WF (tokenize l)) : WF (tokenize (redact l)) := by
  rw [tokenize_redact]; exact redactT_wf _ h

theorem redact_same_safe_text (l : List Byte) (h : WF (tokenize l)) :
    outside false (tokenize (redact l)) = outside false (tokenize l) := by
  rw [tokenize_redact]; exact redactT_same_safe_text _ h

theorem redact_count (l : List Byte) (h : WF (tokenize l)) : countS (tokenize (redact l)) = countS (tokenize l) := by
  rw [tokenize_redact]; exact redactT_count _ h

/-- … and is exactly the string with every envelope's content replaced by the cross. -/
theorem redact_exact (l : List Byte) (h : WF (tokenize l)) : tokenize (redact l) = blank false (tokenize l) := by
  rw [tokenize_redact]; exact redactT_exact _ h

example : redact (redact ([0xE2] ++ startB ++ [0x80, 0xB9] ++ endB)) = redact ([0xE2] ++ startB ++ [0x80, 0xB9] ++ endB) := redact_idem _

/-! ### On the functions as the translator reads them off `internal/markers/markers.go` on every run
(equality with the model: Props/TransMarkers.lean) -/

/-- `Redact()` read at token level is `redactT` — the function the theorems above are about. -/
theorem translated_redact_tokens (s : List Byte) : Trans.MS_Redact s = untok (redactT (tokenize s)) := by
  rw [ms_redact]; rfl

/-- `StripMarkers()` removes exactly the delimiters of the token reading. -/
theorem translated_strip_tokens (s : List Byte) : Trans.MS_StripMarkers s = untok ((tokenize s).filter (fun x => !x.isMarker)) := by
  rw [ms_stripMarkers, ← stripT_eq_filter]; rfl

/-- `Redact()` as read off the source is idempotent on every string. -/
theorem translated_redact_idem (s : List Byte) : Trans.MS_Redact (Trans.MS_Redact s) = Trans.MS_Redact s := by
  simp only [ms_redact]; exact redact_idem s

example : Trans.MS_Redact ([0x61] ++ startB ++ [0x62, 0x0A] ++ endB ++ [0x63]) = [0x61] ++ redactedB ++ [0x63] := by decide

end Redact
