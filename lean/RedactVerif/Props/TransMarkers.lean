import RedactVerif.Generated.Trans
import RedactVerif.Proofs.Tokens
import RedactVerif.Proofs.Canon
/-
The tie for `internal/markers/markers.go` and `rfmt.EscapeBytes` (helpers.go) by translation. The functions are
one-liners around two regular expressions; `Generated/Trans.lean` holds them as the translator reads them off /repo on
every run, the regexp calls rendered as `goReplaceMarkers` / `goReplaceEnvelopes` (Model/GoPrelude.lean: leftmost
non-overlapping replacement on the token reading; the regexps' source texts are regenerated facts). Here they are proved
to be the model's `stripMarkers` / `redact` / `escapeMarkers` / `escapeBytes`, for every input: the functions C07 and C10
are stated about. A rewrite of one of them (a hand-written scanner, `bytes.Map`, a fast path) leaves the translated
subset or changes the term, and the equality has to be proved again.
-/
namespace Redact

theorem replMarkers_nil (t : List Tok) : replMarkersT [] t = untok (stripT t) := by
  induction t with
  | nil => rfl
  | cons x r ih => cases x <;> simp [replMarkersT, stripT, ih, Tok.bytes]

theorem replMarkers_q (t : List Tok) : replMarkersT [0x3F] t = untok (escT t) := by
  induction t with
  | nil => rfl
  | cons x r ih => cases x <;> simp [replMarkersT, escT, ih, Tok.bytes]

theorem replEnv_redacted (o : Option (List Tok)) (t : List Tok) :
    replEnvAux [0xE2, 0x80, 0xB9, 0xC3, 0x97, 0xE2, 0x80, 0xBA] o t = untok (redactAux o t) := by
  fun_induction redactAux o t
  case case4 t r hne ih => cases t <;> simp_all [replEnvAux, Tok.bytes, startB, endB]
  all_goals simp_all [replEnvAux, untok_append, Tok.bytes, crossT, startB, endB]

/-- `RedactableString.StripMarkers` and `RedactableBytes.StripMarkers` are the model's `stripMarkers`. -/
theorem ms_stripMarkers (s : List Byte) : Trans.MS_StripMarkers s = stripMarkers s := by
  simp [Trans.MS_StripMarkers, Id.run, goReplaceMarkers, replMarkers_nil, stripMarkers]; rfl
theorem mb_stripMarkers (s : List Byte) : Trans.MB_StripMarkers s = stripMarkers s := by
  simp [Trans.MB_StripMarkers, Id.run, goReplaceMarkers, replMarkers_nil, stripMarkers]; rfl

/-- `RedactableString.Redact` and `RedactableBytes.Redact` are the model's `redact`. -/
theorem ms_redact (s : List Byte) : Trans.MS_Redact s = redact s := by
  simp [Trans.MS_Redact, Id.run, goReplaceEnvelopes, replEnv_redacted, redact, redactT]; rfl
theorem mb_redact (s : List Byte) : Trans.MB_Redact s = redact s := by
  simp [Trans.MB_Redact, Id.run, goReplaceEnvelopes, replEnv_redacted, redact, redactT]; rfl

/-- `markers.EscapeMarkers` is the model's `escapeMarkers`. -/
theorem m_escapeMarkers (s : List Byte) : Trans.M_EscapeMarkers s = escapeMarkers s := by
  simp [Trans.M_EscapeMarkers, Id.run, goReplaceMarkers, replMarkers_q, escapeMarkers]; rfl

/-- The conversions are the identity on the bytes, and the string and byte-slice variants are the same functions. -/
theorem conversions_identity (s : List Byte) : Trans.MS_ToBytes s = s ∧ Trans.MB_ToString s = s := ⟨rfl, rfl⟩
theorem variants_agree (s : List Byte) :
    Trans.MS_StripMarkers s = Trans.MB_StripMarkers s ∧ Trans.MS_Redact s = Trans.MB_Redact s := ⟨rfl, rfl⟩

theorem marker_accessors : Trans.M_StartMarker = startB ∧ Trans.M_EndMarker = endB ∧
    Trans.M_RedactedMarker = startB ++ [0xC3, 0x97] ++ endB := ⟨rfl, rfl, rfl⟩

/-- **`rfmt.EscapeBytes` is the model's `escapeBytes`**, and the call of the scanner it makes is within the scanner's
domain (start offset 3 ≤ length): Props/C10.lean `escapeBytes_scanner_call`. -/
theorem escapeBytes_translated (s : List Byte) : Trans.EscapeBytes s = escapeBytes s := by
  simp [Trans.EscapeBytes, Id.run, goLen, goInternalEscapeBytes, escapeBytes, startB, endB]; rfl

/-! The public wrappers of `api.go` delegate, and nothing else. -/
theorem api_escapeMarkers (s : List Byte) : Trans.API_EscapeMarkers s = escapeMarkers s := by
  rw [← m_escapeMarkers]; rfl
theorem api_escapeBytes (s : List Byte) : Trans.API_EscapeBytes s = escapeBytes s := by
  rw [← escapeBytes_translated]; rfl
theorem api_marker_accessors : Trans.API_StartMarker = startB ∧ Trans.API_EndMarker = endB ∧
    Trans.API_RedactedMarker = startB ++ [0xC3, 0x97] ++ endB := ⟨rfl, rfl, rfl⟩

end Redact
