import RedactVerif.Proofs.Erase
import RedactVerif.Proofs.EraseU
import RedactVerif.Proofs.S.Top
import RedactVerif.Props.FactsClassify
/-
C04 — with markers stripped, the output is what the printer writes when nothing is classified.

The fork adds to fmt's printer a classification machinery: buffer modes, overrides, the brackets
`defer p.startX().restore()`, envelopes, lazy escaping. The theorems here say that this machinery
does not change the *text*: for every format and every operand list, with markers stripped the output of
`Sprintf`/`Sprint`/`HelperForErrorf` equals — markers in the data replaced by `?` — the bytes the
same printer functions write when started under a safe override, a state in which every bracket is
the identity and every write is appended verbatim to the pending bytes (`plain_run_is_verbatim`):
the fmt skeleton of the model with the classification erased. The two runs end the same way
(both return, both panic with the same payload, or both fail to evaluate), so a call panics exactly
when the unclassified run does.

What remains outside Lean: that the unclassified run of the model is Go's `fmt` — leaf renderings
are the oracle (Go's fmt itself in the correspondence), and the structure around them is compared
with Go's fmt on every run by the stream `P-plain` (model's unclassified text vs `fmt.Sprintf`)
and by the real-code oracle `P-fidelity`.

Hypotheses: those of `Proofs/Clean.lean` (format valid UTF-8; type names ASCII; renderings and
payloads end in complete characters — C04 quantifies over valid UTF-8), no `Unsafe(…)` wrapper
and no RedactableString/Bytes among the operands (excluded by C04: redact-specific rendering).
SafeFormatter / SafeMessager values and an error hook are *allowed*: dispatch is the same in both
runs, so the statement covers them too.
-/
namespace Redact
namespace C04

theorem pre_plainPP : S.Pre plainPP := by
  refine ⟨(by show Inv (Buffer.init.setMode .safeEsc); exact inv_setMode _ _ inv_init), ?_, rfl⟩
  show (newPP.buf.setMode .safeEsc).mode = _
  rw [setMode_mode]

theorem plainPP_pre_nil : plainPP.buf.pre = [] := by decide

theorem er_entry : Er.ER newPP plainPP := by
  have b0 : Er.BR Buffer.init Buffer.init := by
    obtain ⟨a, d, k⟩ := clean_init
    exact ⟨a, d, d, k, k⟩
  have b1 := b0.setMode .unsafeEsc .safeEsc
  rw [setMode_same Buffer.init .unsafeEsc rfl] at b1
  exact ⟨rfl, rfl, rfl, rfl, rfl, rfl, rfl, by decide, by decide, by decide,
    by show (newPP.buf.setMode .safeEsc).mode ≠ _; rw [setMode_mode]; decide, b1⟩

theorem er_entry_errorf : Er.ER { newPP with wrapErrs := true } { plainPP with wrapErrs := true } :=
  { er_entry with wrapErrs := rfl }

/-- Related printers finish to outputs that read the same with markers stripped. -/
theorem strip_eq_of_ER {q q' : PP} (h : Er.ER q q') :
    stripMarkers q.buf.redactableBytes = stripMarkers q'.buf.redactableBytes := by
  obtain ⟨a, d, d', k, k'⟩ := h.br
  have ⟨_, p1, _⟩ := finalize_K _ _ _ k
  have ⟨_, p2, _⟩ := finalize_K _ _ _ k'
  unfold stripMarkers Buffer.redactableBytes
  rw [p1, p2]

/-- **In the unclassified run every write is appended verbatim**: the buffer stays in safe mode,
nothing is validated (no envelope, no escaping yet), so `buf` is the concatenation of everything
written; finishing it replaces the markers in that text by `?` and does nothing else. -/
theorem plain_finish {q' : PP} (hbs : S.BS plainPP.buf q'.buf) (hclean : Clean q'.buf) :
    q'.buf.validUntil = 0 ∧ q'.buf.mode = .safeEsc ∧ q'.buf.markerOpen = false ∧
      tokenize q'.buf.redactableBytes = escT (tokenize q'.buf.buf) ∧
      q'.buf.redactableBytes = escapeMarkers q'.buf.buf := by
  have hpre0 : q'.buf.pre = [] := by rw [hbs.pre]; exact plainPP_pre_nil
  have hm : q'.buf.mode ≠ .raw := by rw [hbs.mode]; decide
  have hdec : decide (q'.buf.mode = .unsafeEsc) = false := by rw [hbs.mode]; decide
  have oo : q'.buf.markerOpen = false := by
    cases ho : q'.buf.markerOpen with
    | false => rfl
    | true => have := hbs.inv.openMode ho; rw [hbs.mode] at this; cases this
  have hvu : q'.buf.validUntil = 0 := by
    have hl := hbs.inv.le
    have : (q'.buf.buf.take q'.buf.validUntil).length = 0 := by
      have := congrArg List.length hpre0
      simpa [Buffer.pre] using this
    rw [List.length_take] at this
    omega
  suffices hh : tokenize q'.buf.redactableBytes = escT (tokenize q'.buf.buf) by
    refine ⟨hvu, hbs.mode, oo, hh, ?_⟩
    unfold escapeMarkers
    rw [← hh, untok_tokenize]
  obtain ⟨a, d, k⟩ := hclean
  have htail : tailBad q'.buf.buf = false := k.tail
  unfold Buffer.redactableBytes
  rw [finalize_esc_closed _ hm oo, hdec]
  show tokenize (escapeBytesAt q'.buf.buf q'.buf.validUntil false false) = _
  have hsuf : q'.buf.suf = q'.buf.buf := by
    have := buf_eq_pre_suf q'.buf
    rw [hpre0] at this
    simpa using this.symm
  have spec := (escapeBytesAt_spec q'.buf.buf q'.buf.validUntil false hbs.inv.good).1
  change tokenize (escapeBytesAt q'.buf.buf q'.buf.validUntil false false) =
    (if tailBad q'.buf.buf = true then escTok false (tokenize q'.buf.pre) (tokenize q'.buf.suf) ++ [.b 0x3F]
      else escTok false (tokenize q'.buf.pre) (tokenize q'.buf.suf)) at spec
  rw [htail, hpre0, hsuf, escTok_false_eq] at spec
  simp only [Bool.false_eq_true, if_false, tokenize_nil, List.nil_append] at spec
  exact spec

/-- How two results compare: both return and the classified output, stripped, is the unclassified
text with its markers replaced by `?`; or both panic with the same payload; or neither evaluates. -/
def SameText : Res → Res → Prop
  | .ok q, .ok q' => stripMarkers q.buf.redactableBytes = escapeMarkers q'.buf.buf
  | .panic _ pl, .panic _ pl' => pl = pl'
  | .fuel, .fuel => True
  | .unsupported, .unsupported => True
  | _, _ => False

theorem sameText_of_rel {r r' : Res} (h : Er.RelR r r') (hS : S.GR plainPP r') : SameText r r' := by
  cases h with
  | ok hq =>
    rename_i q q'
    show stripMarkers q.buf.redactableBytes = escapeMarkers q'.buf.buf
    have g := hS.1 q' rfl
    obtain ⟨a, d, d', k, k'⟩ := hq.br
    have pf := plain_finish g.1 ⟨a, d', k'⟩
    rw [strip_eq_of_ER hq]
    unfold stripMarkers escapeMarkers
    rw [pf.2.2.2.1, stripT_escT]
  | panic _ _ => rfl
  | fuel => trivial
  | unsupported => trivial

/-- **C04 for Sprintf / Fprintf.** -/
theorem sprintf_strip_eq_plain (env : Env) (he : Er.EnvE env) (hs : S.EnvOk env) (f : List Byte) (hf : FmtCl f)
    (args : List Val) (ha : Er.ListE args) (ho : S.ListOk args) :
    SameText (sprintf env f args) (plainSprintf env f args) :=
  sameText_of_rel ((Er.espec_all env he defaultFuel).doPrintf _ _ f args er_entry hf ha)
    ((S.spec_all env hs defaultFuel).doPrintf _ f args pre_plainPP ho)

/-- **C04 for Sprint / Fprint.** -/
theorem sprint_strip_eq_plain (env : Env) (he : Er.EnvE env) (hs : S.EnvOk env)
    (args : List Val) (ha : Er.ListE args) (ho : S.ListOk args) :
    SameText (sprint env args) (plainSprint env args) :=
  sameText_of_rel ((Er.espec_all env he defaultFuel).doPrint _ _ args er_entry ha)
    ((S.spec_all env hs defaultFuel).doPrint _ args pre_plainPP ho)

/-- **The text of HelperForErrorf** (C15's "otherwise identical" clause read against the unclassified run). -/
theorem helperForErrorf_strip_eq_plain (env : Env) (he : Er.EnvE env) (hs : S.EnvOk env) (f : List Byte) (hf : FmtCl f)
    (args : List Val) (ha : Er.ListE args) (ho : S.ListOk args) :
    SameText (helperForErrorf env f args) (plainErrorf env f args) :=
  sameText_of_rel ((Er.espec_all env he defaultFuel).doPrintf _ _ f args er_entry_errorf hf ha)
    (S.GR_congr rfl rfl ((S.spec_all env hs defaultFuel).doPrintf _ f args (S.Pre_congr rfl pre_plainPP) ho))

/-- **A print call panics exactly when the unclassified run does**, and with the same payload. -/
theorem sprintf_panics_iff_plain (env : Env) (he : Er.EnvE env) (hs : S.EnvOk env) (f : List Byte) (hf : FmtCl f)
    (args : List Val) (ha : Er.ListE args) (ho : S.ListOk args) (pl : Val) :
    (∃ b, sprintf env f args = .panic b pl) ↔ (∃ b', plainSprintf env f args = .panic b' pl) := by
  have h := sprintf_strip_eq_plain env he hs f hf args ha ho
  generalize sprintf env f args = r at h
  generalize plainSprintf env f args = r' at h
  cases r <;> cases r' <;> simp only [SameText] at h <;> simp_all

/-- **The stripped text does not depend on the classification state at all**: any two printers
that agree on flags and bookkeeping, neither under an unsafe override, whose buffers read the same
with markers stripped, produce outputs that read the same with markers stripped — whatever the
override in force, the mode, the envelopes already in the buffers. -/
theorem strip_independent_of_classification (env : Env) (he : Er.EnvE env) (n : Nat) (p p' : PP) (h : Er.ER p p')
    (f : List Byte) (hf : FmtCl f) (args : List Val) (ha : Er.ListE args) (q q' : PP)
    (h1 : doPrintf env n p f args = .ok q) (h2 : doPrintf env n p' f args = .ok q') :
    stripMarkers q.buf.redactableBytes = stripMarkers q'.buf.redactableBytes := by
  have hr := (Er.espec_all env he n).doPrintf p p' f args h hf ha
  rw [h1, h2] at hr
  cases hr with
  | ok hq => exact strip_eq_of_ER hq

/-! ### With `Safe(…)` / `Unsafe(…)` wrappers among the operands (fmt-only values)

`Proofs/EraseU.lean` repeats the induction with a relation that does not constrain the overrides at
all — one run may be under an unsafe override while the other is not — for operands without
redact-specific dispatch (no SafeFormatter, no SafeMessager, no error hook, no redactable). Hence the
same statements with wrappers anywhere in the operands; with `Props/C06.lean` this is C06's "in both
cases the characters are those fmt prints for x". -/

theorem erU_entry : ErU.ER newPP plainPP := by
  have b0 : ErU.BR Buffer.init Buffer.init := by
    obtain ⟨a, d, k⟩ := clean_init
    exact ⟨a, d, d, k, k⟩
  have b1 := b0.setMode .unsafeEsc .safeEsc
  rw [setMode_same Buffer.init .unsafeEsc rfl] at b1
  exact ⟨rfl, rfl, rfl, rfl, rfl, rfl, rfl, by decide,
    by show (newPP.buf.setMode .safeEsc).mode ≠ _; rw [setMode_mode]; decide, b1⟩

theorem strip_eq_of_ERU {q q' : PP} (h : ErU.ER q q') :
    stripMarkers q.buf.redactableBytes = stripMarkers q'.buf.redactableBytes := by
  obtain ⟨a, d, d', k, k'⟩ := h.br
  have ⟨_, p1, _⟩ := finalize_K _ _ _ k
  have ⟨_, p2, _⟩ := finalize_K _ _ _ k'
  unfold stripMarkers Buffer.redactableBytes
  rw [p1, p2]

theorem sameText_of_relU {r r' : Res} (h : ErU.RelR r r') (hS : S.GR plainPP r') : SameText r r' := by
  cases h with
  | ok hq =>
    rename_i q q'
    show stripMarkers q.buf.redactableBytes = escapeMarkers q'.buf.buf
    have g := hS.1 q' rfl
    obtain ⟨a, d, d', k, k'⟩ := hq.br
    have pf := plain_finish g.1 ⟨a, d', k'⟩
    rw [strip_eq_of_ERU hq]
    unfold stripMarkers escapeMarkers
    rw [pf.2.2.2.1, stripT_escT]
  | panic _ _ => rfl
  | fuel => trivial
  | unsupported => trivial

/-- **C04 / C06 with wrappers, Sprintf**: whatever `Safe(…)`/`Unsafe(…)` wrappers the operands carry, at
any depth, the stripped output is the unclassified text with its markers replaced by `?`. -/
theorem sprintf_wrapped_strip_eq_plain (env : Env) (he : ErU.EnvE env) (hs : S.EnvOk env) (f : List Byte) (hf : FmtCl f)
    (args : List Val) (ha : ErU.ListE args) (ho : S.ListOk args) :
    SameText (sprintf env f args) (plainSprintf env f args) :=
  sameText_of_relU ((ErU.espec_all env he defaultFuel).doPrintf _ _ f args erU_entry hf ha)
    ((S.spec_all env hs defaultFuel).doPrintf _ f args pre_plainPP ho)

/-- **C04 / C06 with wrappers, Sprint.** -/
theorem sprint_wrapped_strip_eq_plain (env : Env) (he : ErU.EnvE env) (hs : S.EnvOk env)
    (args : List Val) (ha : ErU.ListE args) (ho : S.ListOk args) :
    SameText (sprint env args) (plainSprint env args) :=
  sameText_of_relU ((ErU.espec_all env he defaultFuel).doPrint _ _ args erU_entry ha)
    ((S.spec_all env hs defaultFuel).doPrint _ args pre_plainPP ho)

theorem valid_ascii : ∀ c : Byte, c < 0x80 → validRuneB [c] = true := by
  apply byte_forall; decide +kernel

theorem utf8_of_ascii : (l : List Byte) → l.all (· < 0x80) = true → Utf8 l
  | [], _ => .nil
  | c :: r, h => by
    simp only [List.all_cons, Bool.and_eq_true, decide_eq_true_eq] at h
    exact Utf8.cons [c] r (valid_ascii c h.1) (utf8_of_ascii r h.2)

/-! Premises satisfiable: an oracle whose renderings contain a marker character (`a‹b`), a string
operand, a struct holding a Stringer that panics with a string, and a registered safe type. -/
def exEnv : Env := { render := fun _ _ => some [0x61, 0xE2, 0x80, 0xB9, 0x62], hook := none }
def exStr : Val := .leaf 0 .str ([0x73, 0x74, 0x72, 0x69, 0x6E, 0x67] /- "string" -/ : List UInt8) none false false
def exArgs : List Val :=
  [exStr,
   .struct ([0x6D, 0x2E, 0x54] /- "m.T" -/ : List UInt8) false
     (.cons ([0x41] /- "A" -/ : List UInt8) true true
       (.meth { stringer := true } ([0x6D, 0x2E, 0x53] /- "m.S" -/ : List UInt8) false false false 1 (.panic exStr) exStr) .nil),
   .leaf 2 .sint ([0x6D, 0x2E, 0x49] /- "m.I" -/ : List UInt8) (some 7) false true]

example : Er.EnvE exEnv ∧ S.EnvOk exEnv ∧ Er.ListE exArgs ∧ S.ListOk exArgs ∧ FmtCl [0x25, 0x76, 0x20, 0x25, 0x2B, 0x76, 0x25, 0x64] := by
  have ha : ∀ (l : List Byte), l.all (· < 0x80) = true → Asc l := fun l h => asc_of_all h
  refine ⟨⟨?_, ?_⟩, ?_, ?_, ?_, ?_⟩
  · intro id d s hs
    simp only [exEnv, Option.some.injEq] at hs
    subst hs
    exact Or.inr ⟨[0x61, 0xE2, 0x80, 0xB9], [0x62], rfl, by decide⟩
  · intro h hh; cases hh
  · intro h hh; cases hh
  · intro v hv
    simp only [exArgs, List.mem_cons, List.not_mem_nil, or_false] at hv
    rcases hv with rfl | rfl | rfl
    · exact ha _ (by decide)
    · simp only [Er.ValE, Er.FieldsE, Er.ScriptE, exStr]
      exact ⟨ha _ (by decide), endsRune_of_asc (ha _ (by decide)), ⟨ha _ (by decide), ha _ (by decide), ha _ (by decide)⟩, trivial⟩
    · exact ha _ (by decide)
  · intro v hv
    simp only [exArgs, List.mem_cons, List.not_mem_nil, or_false] at hv
    rcases hv with rfl | rfl | rfl <;> simp [S.ValOk, S.FieldsOk, S.ScriptOk, exStr]
  · exact utf8_of_ascii _ (by decide)

end C04
end Redact
