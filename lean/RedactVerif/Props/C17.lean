import RedactVerif.Props.L2
import RedactVerif.Proofs.U.Top
import RedactVerif.Props.FactsClassify
import RedactVerif.Props.FactsSkelPrinter
import RedactVerif.Proofs.EqE
/-
C17 — a registered error hook renders every error operand, except under Unsafe.

Decision logic of `handleMethods` stated outright on the model (tied to
print.go by the P-model correspondence, which runs with the hook on and off):
-/
namespace Redact

/-- With a hook installed and no unsafe override, an error that is neither a
SafeFormatter nor a SafeMessager is rendered solely by the hook's script,
run on the printer as SafePrinter under `catchPanic`; the hook receives the
active verb. -/
theorem hook_dispatch (env : Env) (n : Nat) (p : PP) (arg : Val) (ms : Methods) (nr : Bool) (ret : Nat)
    (sc : Script) (verb : Nat) (h : Nat → Nat → Script)
    (hh : env.hook = some h) (ho : p.override ≠ .ovUnsafe) (he : ms.isError = true)
    (hsf : ms.safeFormatter = false) (hsm : ms.safeMessager = false) :
    methDispatch env (n + 1) p arg ms nr ret sc verb =
      (true, catchPanic env n p arg verb ([0x53, 0x61, 0x66, 0x65, 0x46, 0x6F, 0x72, 0x6D, 0x61, 0x74, 0x74, 0x65, 0x72] /- "SafeFormatter" -/ : List UInt8) nr
        (if nr then .raised p .nil else runScript env n p (h ret verb))) := by
  simp [methDispatch, hh, ho, he, hsf, hsm]

/-- `%w` hands the hook the verb `v`. -/
theorem hook_verb_for_w (env : Env) (n : Nat) (p : PP) (ms : Methods) (ty : List Byte) (sv reg nr : Bool) (ret : Nat)
    (sc : Script) (under : Val) (hwe : p.wrapErrs = true) (hnone : p.wrappedErr = none) (he : ms.isError = true)
    (hne : p.erroring = false) :
    handleMethods env (n + 1) p (.meth ms ty sv reg nr ret sc under) 119 =
      methDispatch env n { p with wrappedErr := some ret } (.meth ms ty sv reg nr ret sc under) ms nr ret sc 118 := by
  simp [handleMethods, hwe, hnone, he, hne]

/-- A SafeFormatter / SafeMessager error is not handed to the hook. -/
theorem hook_not_for_safeFormatter (env : Env) (n : Nat) (p : PP) (arg : Val) (ms : Methods) (nr : Bool) (ret : Nat)
    (sc : Script) (verb : Nat) (ho : p.override ≠ .ovUnsafe) (hsf : ms.safeFormatter = true) :
    methDispatch env (n + 1) p arg ms nr ret sc verb =
      (true, catchPanic env n p arg verb ([0x53, 0x61, 0x66, 0x65, 0x46, 0x6F, 0x72, 0x6D, 0x61, 0x74] /- "SafeFormat" -/ : List UInt8) nr
        (if nr then .raised p .nil else runScript env n p sc)) := by
  simp [methDispatch, ho, hsf]

/-- Under `Unsafe(..)` the hook is bypassed: a plain error (no Formatter) under a
string verb is rendered through its `Error()` text, written like any unsafe string. -/
theorem hook_bypassed_under_unsafe (env : Env) (n : Nat) (p : PP) (arg : Val) (ms : Methods) (nr : Bool) (ret : Nat)
    (sc : Script) (verb : Nat) (ho : p.override = .ovUnsafe) (he : ms.isError = true) (hf : ms.formatter = false)
    (hsv : p.f.sharpV = false) (hverb : verb = 118 ∨ verb = 115 ∨ verb = 120 ∨ verb = 88 ∨ verb = 113) :
    methDispatch env (n + 1) p arg ms nr ret sc verb =
      (true, catchPanic env n p arg verb ([0x45, 0x72, 0x72, 0x6F, 0x72] /- "Error" -/ : List UInt8) nr (retOut nr p sc (fmtString env n p arg ret verb))) := by
  simp [methDispatch, ho, he, hf, hsv, hverb]

/-- A panic in the hook is contained like any other method panic: it is reported
in place and the frame is kept (instance of the frame theorem). -/
theorem hook_panic_contained (env : Env) (he : EnvOk env) (n : Nat) (p : PP) (hp : Pre p) (arg : Val) (verb : Nat)
    (out : SRes) (hout : GS p out) (q : PP)
    (h : catchPanic env n p arg verb ([0x53, 0x61, 0x66, 0x65, 0x46, 0x6F, 0x72, 0x6D, 0x61, 0x74, 0x74, 0x65, 0x72] /- "SafeFormatter" -/ : List UInt8) false out = .ok q) :
    Inv q.buf ∧ q.buf.mode = p.buf.mode ∧ q.override = p.override :=
  ((spec_all env he n).catchPanic p p arg verb _ false out hp hout).1 q h

/-- **Under `Unsafe()` the error's text is fully enveloped** — with or without a hook installed,
whatever the error also implements (Stringer, Formatter, SafeFormatter, a panicking `Error`): the
instance for error operands of C06's theorem (`Proofs/U`). -/
theorem unsafe_error_fully_enveloped (env : Env) (he : EnvOk env) (n : Nat) (p : PP) (err : Val) (verb : Nat)
    (hp : Pre p) (ho : p.override = .no) (hm : p.buf.mode ≠ .unsafeEsc)
    (hT : tailBad p.buf.finalize.buf = false) (hv : ValOk err) (q : PP)
    (h : printArg env (n + 1) p (.unsafeW err) verb = .ok q) :
    ∃ l, OnlyLFs l ∧ U.fT q.buf = U.fT p.buf.finalize ++ l :=
  (U.unsafe_operand env he n p err verb hp ho hm hT hv q h).2.2.2.2.2

/-! ### Every operand of a call meets method dispatch with the `erroring` flag clear

`hook_dispatch` and the other theorems above assume `p.erroring = false` (while the flag is set — inside the report of
a bad verb — `handleMethods` declines by design). That this holds for *every* operand of a call, not only the first, is
the frame below (Proofs/EqE.lean: all 21 functions return with the flag clear when entered with it clear): a fresh
printer has it clear, and each operand leaves it clear for the next. Seeded change C17-l (a bad verb on nil that returns
before clearing the flag) is exactly a violation of this frame. -/

theorem operand_leaves_flag_clear (env : Env) (n : Nat) (p : PP) (v : Val) (verb : Nat) (hp : p.erroring = false) (q : PP)
    (h : printArg env n p v verb = .ok q) : q.erroring = false :=
  EqE.printArg_clear env n p v verb hp q h

theorem sprintf_ends_with_flag_clear (env : Env) (f : List Byte) (args : List Val) (q : PP)
    (h : sprintf env f args = .ok q) : q.erroring = false :=
  EqE.doPrintf_clear env defaultFuel newPP f args rfl q h

theorem sprint_ends_with_flag_clear (env : Env) (args : List Val) (q : PP)
    (h : sprint env args = .ok q) : q.erroring = false :=
  EqE.doPrint_clear env defaultFuel newPP args rfl q h

end Redact
