import RedactVerif.Model.Writer
import RedactVerif.Proofs.BufferInv
import RedactVerif.Props.L2
import RedactVerif.Props.FactsConsts
import RedactVerif.Props.FactsSkelBuffer
import RedactVerif.Props.TransBuffer
import RedactVerif.Props.TransEscape
/-
C01 — every produced string is a well-formed redactable string
(and C03's "no envelope spans a line break": `WFL` = well-formed + line-safe).

Level reached: proof for the buffer layer (every sequence of operations of
`internal/buffer`, `builder.StringBuilder` and the printer's SafeWriter
adapter, with arbitrary payload bytes and runes) and for `EscapeBytes`.
The only hypothesis is on raw-mode (pre-redactable) writes: what is written
raw must itself be `Obtainable` — and every output is `Obtainable`
(`outputs_obtainable`), which closes the induction over print-then-reprint
histories. The printer (L2) reaches the buffer only through these operations.
-/
namespace Redact

/-- Hypothesis on one operation in state `b`: raw-mode writes carry finished redactables. -/
def OpOk (b : Buffer) : Op → Prop
  | .write p => b.mode = .raw → Obtainable p
  | .writeByte x => b.mode = .raw → Obtainable [x]
  | .writeRune r => b.mode = .raw → Obtainable (encodeRune r)
  | _ => True

def RunOk : Buffer → List Op → Prop
  | _, [] => True
  | b, op :: r => OpOk b op ∧ RunOk (b.step op).1 r

theorem inv_step (b : Buffer) (op : Op) (hi : Inv b) (hok : OpOk b op) : Inv (b.step op).1 := by
  cases op with
  | setMode m => exact inv_setMode b m hi
  | write p => exact inv_write b p hi hok
  | writeByte x => exact inv_writeByte b x hi hok
  | writeRune r => exact inv_writeRune b r hi hok
  | reset => exact inv_init
  | take => exact inv_take b hi
  | grow n => exact hi
  | accLen => exact hi
  | accString => exact hi
  | accRedactable => exact hi
  | accMode => exact hi

theorem inv_run (b : Buffer) (ops : List Op) (hi : Inv b) (hok : RunOk b ops) : Inv (b.run ops) := by
  induction ops generalizing b with
  | nil => simpa [Buffer.run] using hi
  | cons op r ih =>
    simp only [Buffer.run, List.foldl_cons]
    exact ih _ (inv_step b op hi hok.1) hok.2

/-- **C01/C03, buffer level.** Whatever the sequence of buffer operations and
whatever the payload bytes, runes and mode switches, the string the buffer
hands out is a well-formed, line-safe redactable. -/
theorem buffer_wf (ops : List Op) (h : RunOk Buffer.init ops) :
    WFL (tokenize (Buffer.init.run ops).redactableBytes) :=
  (obtainable_finalize _ (inv_run _ ops inv_init h)).2

/-- **C01/C03 on the code as translated from the source**: any sequence of calls of the methods of
`buffer.Buffer` as /verif/extract reads them off `internal/buffer/buffer.go` on every run
(`Generated/Trans.lean`), starting from the zero `Buffer`, hands out a well-formed, line-safe
redactable — because those methods compute the model's (`transRun_conc`, Props/TransBuffer.lean). -/
theorem translated_buffer_wf (ops : List Op) (h : RunOk Buffer.init ops) :
    WFL (tokenize (Trans.RedactableBytes (transRun (conc Buffer.init) ops))) := by
  rw [transRun_conc, redactableBytes_translated]
  exact buffer_wf ops h

/-- Every output is itself acceptable as a raw (pre-redactable) write later on. -/
theorem outputs_obtainable (ops : List Op) (h : RunOk Buffer.init ops) :
    Obtainable (Buffer.init.run ops).redactableBytes :=
  obtainable_finalize _ (inv_run _ ops inv_init h)

/-- The same holds at every intermediate point (accessors, Take). -/
theorem buffer_wf_prefix (ops₁ ops₂ : List Op) (h : RunOk Buffer.init (ops₁ ++ ops₂)) :
    Obtainable (Buffer.init.run ops₁).redactableBytes := by
  have : RunOk Buffer.init ops₁ := by
    have gen : ∀ (b : Buffer) (a c : List Op), RunOk b (a ++ c) → RunOk b a := by
      intro b a c
      induction a generalizing b with
      | nil => intro _; trivial
      | cons op r ih => intro h; exact ⟨h.1, ih _ h.2⟩
    exact gen _ _ _ h
  exact outputs_obtainable ops₁ this

/-! ### StringBuilder (builder/builder.go) -/

/-- Hypothesis on a SafeWriter call: the inner result of `Print/Printf` is a finished redactable. -/
def WOpOk : WOp → Prop
  | .print r => Obtainable r
  | _ => True

theorem inv_builderOps (b : Buffer) (w : WOp) (hi : Inv b) (hok : WOpOk w) : Inv (b.run (builderOps w)) := by
  have i1 : ∀ m, Inv (b.setMode m) := fun m => inv_setMode b m hi
  have nr : ∀ m, m ≠ Mode.raw → (b.setMode m).mode ≠ .raw := fun m h => by rw [setMode_mode]; exact h
  cases w with
  | safeString p => exact inv_write_nr _ _ (i1 _) (nr _ (by decide))
  | safeByte x => exact inv_writeByte_nr _ _ (i1 _) (nr _ (by decide))
  | safeRune r => exact inv_writeRune_nr _ _ (i1 _) (nr _ (by decide))
  | safeNum p => exact inv_write_nr _ _ (i1 _) (nr _ (by decide))
  | unsafeString p => exact inv_write_nr _ _ (i1 _) (nr _ (by decide))
  | unsafeByte x => exact inv_writeByte_nr _ _ (i1 _) (nr _ (by decide))
  | unsafeRune r => exact inv_writeRune_nr _ _ (i1 _) (nr _ (by decide))
  | print r => exact inv_write _ _ (i1 _) (fun _ => hok)

theorem run_append (b : Buffer) (a c : List Op) : b.run (a ++ c) = (b.run a).run c := by
  simp [Buffer.run, List.foldl_append]

theorem inv_builderRun (b : Buffer) (ws : List WOp) (hi : Inv b) (hok : ∀ w ∈ ws, WOpOk w) :
    Inv (builderRun b ws) := by
  induction ws generalizing b with
  | nil => simpa [builderRun, Buffer.run] using hi
  | cons w r ih =>
    have : builderRun b (w :: r) = builderRun (b.run (builderOps w)) r := by
      simp [builderRun, run_append]
    rw [this]
    exact ih _ (inv_builderOps b w hi (hok w (by simp))) (fun w' hw' => hok w' (by simp [hw']))

/-- **C01/C03/C09 (well-formedness clause), StringBuilder.** Any sequence of
SafeWriter calls with arbitrary payloads yields a well-formed, line-safe,
obtainable redactable. -/
theorem builder_wf (ws : List WOp) (hok : ∀ w ∈ ws, WOpOk w) :
    Obtainable (builderRun Buffer.init ws).redactableBytes :=
  obtainable_finalize _ (inv_builderRun _ ws inv_init hok)

/-! ### The printer's SafeWriter adapter (printer_adapter.go) -/

/-- A bracketed write `start…; f; restore`: `q` is the buffer after the `start…` switch. -/
theorem inv_bracket (b q : Buffer) (f : Buffer → Buffer)
    (hf : ∀ b', Inv b' → b'.mode ≠ .raw → Inv (f b') ∧ (f b').mode = b'.mode)
    (hq : Inv q) (hqm : q.mode ≠ .raw) :
    Inv ((f q).setMode b.mode) ∧ ((f q).setMode b.mode).mode = b.mode :=
  ⟨inv_setMode _ _ (hf q hq hqm).1, setMode_mode _ _⟩

theorem inv_sw (b : Buffer) (m : Mode) (hi : Inv b) (hm : m ≠ .raw) :
    Inv (b.setMode m) ∧ (b.setMode m).mode ≠ .raw :=
  ⟨inv_setMode b m hi, by rw [setMode_mode]; exact hm⟩

/-- Each SafeWriter call on the printer's adapter preserves the invariant and
leaves the ambient mode as it found it (restorer pattern). -/
theorem inv_adapterStep (p : PPB) (w : WOp) (hi : Inv p.buf) (hm : p.buf.mode ≠ .raw) :
    Inv (adapterStep p w).buf ∧ (adapterStep p w).buf.mode = p.buf.mode := by
  have fw : ∀ s, ∀ b', Inv b' → b'.mode ≠ .raw → Inv (b'.write s) ∧ (b'.write s).mode = b'.mode :=
    fun s b' h1 h2 => ⟨inv_write_nr b' s h1 h2, write_mode b' s⟩
  have fb : ∀ x, ∀ b', Inv b' → b'.mode ≠ .raw → Inv (b'.writeByte x) ∧ (b'.writeByte x).mode = b'.mode :=
    fun x b' h1 h2 => ⟨inv_writeByte_nr b' x h1 h2, writeByte_mode b' x⟩
  have fr : ∀ r, ∀ b', Inv b' → b'.mode ≠ .raw → Inv (b'.writeRune r) ∧ (b'.writeRune r).mode = b'.mode :=
    fun r b' h1 h2 => ⟨inv_writeRune_nr b' r h1 h2, writeRune_mode b' r⟩
  cases w with
  | print r => exact ⟨hi, rfl⟩
  | safeString s =>
    by_cases ho : p.override = .no
    · simpa [adapterStep, PPB.startSafeOverride, PPB.restore, PPB.onBuf, ho] using
        inv_bracket p.buf (p.buf.setMode .safeEsc) (·.write s) (fw s) (inv_sw _ _ hi (by decide)).1 (inv_sw _ _ hi (by decide)).2
    · simpa [adapterStep, PPB.startSafeOverride, PPB.restore, PPB.onBuf, ho] using
        inv_bracket p.buf p.buf (·.write s) (fw s) hi hm
  | safeByte x =>
    by_cases ho : p.override = .no
    · simpa [adapterStep, PPB.startSafeOverride, PPB.restore, PPB.onBuf, ho] using
        inv_bracket p.buf (p.buf.setMode .safeEsc) (·.writeByte x) (fb x) (inv_sw _ _ hi (by decide)).1 (inv_sw _ _ hi (by decide)).2
    · simpa [adapterStep, PPB.startSafeOverride, PPB.restore, PPB.onBuf, ho] using
        inv_bracket p.buf p.buf (·.writeByte x) (fb x) hi hm
  | safeRune r =>
    by_cases ho : p.override = .no
    · simpa [adapterStep, PPB.startSafeOverride, PPB.restore, PPB.onBuf, ho] using
        inv_bracket p.buf (p.buf.setMode .safeEsc) (·.writeRune r) (fr r) (inv_sw _ _ hi (by decide)).1 (inv_sw _ _ hi (by decide)).2
    · simpa [adapterStep, PPB.startSafeOverride, PPB.restore, PPB.onBuf, ho] using
        inv_bracket p.buf p.buf (·.writeRune r) (fr r) hi hm
  | unsafeString s =>
    by_cases ho : p.override = .ovSafe
    · simpa [adapterStep, PPB.startUnsafe, PPB.restore, PPB.onBuf, ho] using
        inv_bracket p.buf p.buf (·.write s) (fw s) hi hm
    · simpa [adapterStep, PPB.startUnsafe, PPB.restore, PPB.onBuf, ho] using
        inv_bracket p.buf (p.buf.setMode .unsafeEsc) (·.write s) (fw s) (inv_sw _ _ hi (by decide)).1 (inv_sw _ _ hi (by decide)).2
  | unsafeByte x =>
    by_cases ho : p.override = .ovSafe
    · simpa [adapterStep, PPB.startUnsafe, PPB.restore, PPB.onBuf, ho] using
        inv_bracket p.buf p.buf (·.writeByte x) (fb x) hi hm
    · simpa [adapterStep, PPB.startUnsafe, PPB.restore, PPB.onBuf, ho] using
        inv_bracket p.buf (p.buf.setMode .unsafeEsc) (·.writeByte x) (fb x) (inv_sw _ _ hi (by decide)).1 (inv_sw _ _ hi (by decide)).2
  | unsafeRune r =>
    by_cases ho : p.override = .ovSafe
    · simpa [adapterStep, PPB.startUnsafe, PPB.restore, PPB.onBuf, ho] using
        inv_bracket p.buf p.buf (·.writeRune r) (fr r) hi hm
    · simpa [adapterStep, PPB.startUnsafe, PPB.restore, PPB.onBuf, ho] using
        inv_bracket p.buf (p.buf.setMode .unsafeEsc) (·.writeRune r) (fr r) (inv_sw _ _ hi (by decide)).1 (inv_sw _ _ hi (by decide)).2
  | safeNum s =>
    -- SafeInt/SafeUint/SafeFloat: startSafeOverride, then the leaf formatter's startUnsafe
    -- inner bracket as a mode-preserving, invariant-preserving function of the buffer
    have g0 : ∀ b', Inv b' → b'.mode ≠ .raw →
        Inv ((b'.write s).setMode b'.mode) ∧ ((b'.write s).setMode b'.mode).mode = b'.mode :=
      fun b' h1 hm' => inv_bracket b' b' (·.write s) (fw s) h1 hm'
    have g1 : ∀ b', Inv b' → b'.mode ≠ .raw →
        Inv (((b'.setMode .unsafeEsc).write s).setMode b'.mode) ∧ (((b'.setMode .unsafeEsc).write s).setMode b'.mode).mode = b'.mode :=
      fun b' h1 _ => inv_bracket b' (b'.setMode .unsafeEsc) (·.write s) (fw s) (inv_sw _ _ h1 (by decide)).1 (inv_sw _ _ h1 (by decide)).2
    cases ho : p.override with
    | no =>
      simpa [adapterStep, PPB.startSafeOverride, PPB.startUnsafe, PPB.restore, PPB.onBuf, ho] using
        inv_bracket p.buf (p.buf.setMode .safeEsc) _ g0 (inv_sw _ _ hi (by decide)).1 (inv_sw _ _ hi (by decide)).2
    | ovSafe =>
      simpa [adapterStep, PPB.startSafeOverride, PPB.startUnsafe, PPB.restore, PPB.onBuf, ho] using
        inv_bracket p.buf p.buf _ g0 hi hm
    | ovUnsafe =>
      simpa [adapterStep, PPB.startSafeOverride, PPB.startUnsafe, PPB.restore, PPB.onBuf, ho] using
        inv_bracket p.buf p.buf _ g1 hi hm

theorem inv_adapterRun (p : PPB) (ws : List WOp) (hi : Inv p.buf) (hm : p.buf.mode ≠ .raw) :
    Inv (adapterRun p ws).buf ∧ (adapterRun p ws).buf.mode = p.buf.mode := by
  induction ws generalizing p with
  | nil => exact ⟨hi, rfl⟩
  | cons w r ih =>
    have ⟨h1, h2⟩ := inv_adapterStep p w hi hm
    have ⟨h3, h4⟩ := ih (adapterStep p w) h1 (by rw [h2]; exact hm)
    exact ⟨by simpa [adapterRun] using h3, by simpa [adapterRun, h2] using h4⟩

/-- **C01/C03/C09 (well-formedness clause), SafePrinter.** Any sequence of
SafeWriter calls issued by a SafeFormat method, a Sprintfn callback or a
Formatter that discovered the SafePrinter — under any override and from any
reachable buffer state in an escaping mode — leaves a buffer whose output is a
well-formed, line-safe, obtainable redactable, and restores the ambient mode. -/
theorem adapter_wf (p : PPB) (ws : List WOp) (hi : Inv p.buf) (hm : p.buf.mode ≠ .raw) :
    Obtainable (adapterRun p ws).buf.redactableBytes ∧ (adapterRun p ws).buf.mode = p.buf.mode :=
  ⟨obtainable_finalize _ (inv_adapterRun p ws hi hm).1, (inv_adapterRun p ws hi hm).2⟩

/-! ### EscapeBytes (helpers.go) -/

/-- **C01/C03/C10.** `EscapeBytes(b)` is a well-formed, line-safe, obtainable redactable for every `b`. -/
theorem escapeBytes_wf (s : List Byte) : Obtainable (escapeBytes s) := by
  unfold escapeBytes
  have htake : (startB ++ s).take 3 = startB := by simp [startB]
  have hdrop : (startB ++ s).drop 3 = s := by simp [startB]
  have hg : goodT (tokenize ((startB ++ s).take 3)) = true := by rw [htake]; decide
  have hspec := escapeBytesAt_spec (startB ++ s) 3 true hg
  simp only at hspec
  obtain ⟨htok, hgood⟩ := hspec
  rw [htake, hdrop] at htok
  have hR : scan (escTok true (tokenize startB) (tokenize s)) = some true :=
    scan_escTok_open _ _ (by decide)
  have hsc : scan (tokenize (escapeBytesAt (startB ++ s) 3 true false)) = some true := by
    rw [htok]; split
    · rw [scan_append, hR]; simp [scanFrom_q]
    · exact hR
  refine ⟨?_, ?_⟩
  · rw [tokenize_append_endB, goodT_snoc_e]; exact hgood
  · rw [tokenize_append_endB, scan_append, hsc]; simp [scanFrom]


/-! ### The printer (L2): every entry point of the model -/

/-- **C01/C03, printer level.** For every oracle (`render` = whatever strconv/fmt
produce for basic values), every error hook, every format string (arbitrary
bytes), every argument list of the modelled universe — leaves of all basic
kinds, Safe/Unsafe wrappers at any nesting, RedactableString/Bytes, values
with String/Error/GoString/Format/SafeFormat/SafeMessage methods whose bodies
are arbitrary scripts of SafePrinter calls (including nested Print/Printf and
panics with arbitrary payloads), slices, maps, structs, pointers, registered
and SafeValue types — `Sprintf` either lets a panic propagate or returns a
well-formed, line-safe, obtainable redactable. The only hypothesis is that
embedded RedactableString/Bytes are themselves obtainable (`ListOk`). -/
theorem sprintf_wf (env : Env) (he : EnvOk env) (f : List Byte) (args : List Val) (ha : ListOk args)
    (q : PP) (h : sprintf env f args = .ok q) : Obtainable q.buf.redactableBytes :=
  (doPrintf_out env he _ newPP pre_newPP f args ha q h).1

theorem sprint_wf (env : Env) (he : EnvOk env) (args : List Val) (ha : ListOk args)
    (q : PP) (h : sprint env args = .ok q) : Obtainable q.buf.redactableBytes :=
  (doPrint_out env he _ newPP pre_newPP args ha q h).1

theorem helperForErrorf_wf (env : Env) (he : EnvOk env) (f : List Byte) (args : List Val) (ha : ListOk args)
    (q : PP) (h : helperForErrorf env f args = .ok q) : Obtainable q.buf.redactableBytes :=
  (doPrintf_out env he _ _ (pre_entry _ rfl) f args ha q h).1

/-- Nested printers inside a StringBuilder / Sprintfn callback: a script run on
a printer in any reachable state keeps the buffer invariant. -/
theorem script_wf (env : Env) (he : EnvOk env) (n : Nat) (p : PP) (hp : Pre p) (sc : Script) (hsc : ScriptOk sc)
    (q : PP) (h : runScript env n p sc = .ok q) : Obtainable q.buf.redactableBytes ∧ q.buf.mode = p.buf.mode := by
  have := (spec_all env he n).runScript p sc hp hsc
  rw [h] at this
  exact ⟨obtainable_finalize _ this.1, this.2.1⟩

/-! ### Non-vacuity: the hypotheses are met by non-trivial runs -/

example : RunOk Buffer.init [.setMode .safeEsc, .write [0xE2, 0x80], .setMode .unsafeEsc, .write [0x80, 0xB9, 0x0A, 0x41],
    .setMode .raw, .write (startB ++ [0x78] ++ endB), .accRedactable, .take, .writeRune 0x2039] := by
  simp only [RunOk, OpOk, Buffer.step]
  decide

example : (Buffer.init.run [.setMode .safeEsc, .write [0xE2, 0x80], .setMode .unsafeEsc, .write [0x80, 0xB9, 0x0A, 0x41]]).redactableBytes
    = [0xE2, 0x80, 0x3F] ++ startB ++ [0x80, 0xB9] ++ endB ++ [0x0A] ++ startB ++ [0x41] ++ endB := by
  decide

/-- Non-vacuity at L2: a format with a bad verb, an Unsafe(Safe(..)) wrapper and a redactable operand. -/
example : ListOk [.unsafeW (.safeW (.leaf 0 .str ([0x73, 0x74, 0x72, 0x69, 0x6E, 0x67] /- "string" -/ : List UInt8) none false false)), .redactable (startB ++ [0x78] ++ endB) ([0x6D, 0x61, 0x72, 0x6B, 0x65, 0x72, 0x73, 0x2E, 0x52, 0x65, 0x64, 0x61, 0x63, 0x74, 0x61, 0x62, 0x6C, 0x65, 0x53, 0x74, 0x72, 0x69, 0x6E, 0x67] /- "markers.RedactableString" -/ : List UInt8)] := by
  intro v hv
  simp only [List.mem_cons, List.mem_nil_iff, or_false] at hv
  rcases hv with rfl | rfl
  · simp [ValOk]
  · simp only [ValOk]; decide

end Redact
