import RedactVerif.Props.C01
import RedactVerif.Props.FactsConsts
import RedactVerif.Props.FactsSkelBuffer
import RedactVerif.Props.TransEscape
import RedactVerif.Props.TransMarkers
/-
C10 — escaping removes every marker from arbitrary bytes and nothing else.

The byte-level scanner `escGo` (the Go loop of `InternalEscapeBytes`) is tied
to its token-level specification by `escGo_refines` (Proofs/Escape.lean) for
every output-so-far, every suffix and both line-splitting settings. This file
derives the statements of the property from it.
-/
namespace Redact

theorem straddles_nil_left (l : List Byte) : straddles [] l = false := by
  simp [straddles]

/-- `EscapeMarkers` (a regexp in Go) is the scanner in safe mode from offset 0. -/
theorem escapeMarkers_eq_escGo (l : List Byte) : escapeMarkers l = escGo false [] l := by
  have h := escGo_refines false [] l (straddles_nil_left l)
  rw [tokenize_nil, escTok_false_eq, List.nil_append] at h
  unfold escapeMarkers
  rw [← h, untok_tokenize]

/-- **Specification of `EscapeMarkers`**: the result tokenises to the input's
tokens with every marker replaced by `?` — positions and all other bytes untouched. -/
theorem escapeMarkers_spec (l : List Byte) : tokenize (escapeMarkers l) = escT (tokenize l) := by
  rw [escapeMarkers_eq_escGo, escGo_refines false [] l (straddles_nil_left l), tokenize_nil, escTok_false_eq]
  simp

theorem escT_no_marker (t : List Tok) : ∀ x ∈ escT t, x.isMarker = false := by
  induction t with
  | nil => simp [escT]
  | cons y r ih => cases y <;> simp [escT, Tok.isMarker] <;> exact ih

/-- No marker survives `EscapeMarkers`, for every byte string. -/
theorem escapeMarkers_no_marker (l : List Byte) : ∀ x ∈ tokenize (escapeMarkers l), x.isMarker = false := by
  rw [escapeMarkers_spec]; exact escT_no_marker _

theorem escT_idem (t : List Tok) : escT (escT t) = escT t := by
  induction t with
  | nil => simp [escT]
  | cons y r ih => cases y <;> simp [escT, ih]

/-- Escaping is idempotent. -/
theorem escapeMarkers_idem (l : List Byte) : escapeMarkers (escapeMarkers l) = escapeMarkers l := by
  apply tokenize_injective
  rw [escapeMarkers_spec, escapeMarkers_spec, escT_idem]

/-- Bytes that are not part of a marker are never altered: a marker-free input is returned unchanged. -/
theorem escapeMarkers_id_of_no_marker (l : List Byte) (h : ∀ x ∈ tokenize l, x.isMarker = false) :
    escapeMarkers l = l := by
  apply tokenize_injective
  rw [escapeMarkers_spec]
  generalize tokenize l = t at h
  induction t with
  | nil => simp [escT]
  | cons y r ih =>
    cases y with
    | s => simp [Tok.isMarker] at h
    | e => simp [Tok.isMarker] at h
    | b x => simp [escT]; exact ih (fun z hz => h z (by simp [hz]))

/-- The stripped form of the token-level escape: the prefix's stripped form
followed by the escaped payload, whatever the line-splitting setting. -/
theorem stripT_escTok (nl : Bool) (out rest : List Tok) :
    stripT (escTok nl out rest) = stripT out ++ escT rest := by
  induction rest generalizing out with
  | nil => simp [escTok, escT]
  | cons t r ih =>
    cases t with
    | s => simp [escTok, ih, stripT_append, stripT, escT]
    | e => simp [escTok, ih, stripT_append, stripT, escT]
    | b x =>
      simp only [escTok]
      split
      · rename_i hx
        have hxl : x = LF := by simp at hx; exact hx.2
        rw [ih]
        split
        · rename_i hl
          have ho := eq_dropLast_append_of_getLast hl
          have : stripT out = stripT out.dropLast := by
            conv => lhs; rw [ho]
            simp [stripT_append, stripT]
          simp [stripT_append, stripT, escT, this, hxl]
        · simp [stripT_append, stripT, escT, hxl]
      · rw [ih]; simp [stripT_append, stripT, escT]

theorem stripT_escT (t : List Tok) : stripT (escT t) = escT t := by
  induction t with
  | nil => simp [escT, stripT]
  | cons y r ih => cases y <;> simp [escT, stripT, ih]

/-- **`EscapeBytes`**: with the markers stripped, the result is the escaped
payload, plus one `?` if the payload ends in a truncated multi-byte sequence. -/
theorem strip_escapeBytes (s : List Byte) :
    stripT (tokenize (escapeBytes s)) =
      escT (tokenize s) ++ (if tailBad (startB ++ s) then [.b 0x3F] else []) := by
  unfold escapeBytes
  have htake : (startB ++ s).take 3 = startB := by simp [startB]
  have hdrop : (startB ++ s).drop 3 = s := by simp [startB]
  have hg : goodT (tokenize ((startB ++ s).take 3)) = true := by rw [htake]; decide
  have hspec := (escapeBytesAt_spec (startB ++ s) 3 true hg).1
  rw [htake, hdrop] at hspec
  rw [tokenize_append_endB, stripT_append, hspec]
  split <;> simp [stripT_append, stripT_escTok, stripT, startB]

/-- Escaping is insensitive to how a payload is split across successive writes in the same mode. -/
theorem write_split (b : Buffer) (p q : List Byte) : (b.write p).write q = b.write (p ++ q) := by
  have hs : ∀ b' : Buffer, ¬ (b'.mode = .unsafeEsc ∧ b'.markerOpen = false) → b'.startWrite = b' :=
    fun b' h => startWrite_noop b' h
  have h2 : (b.startWrite.append p).startWrite = b.startWrite.append p := by
    apply hs
    by_cases hc : b.mode = .unsafeEsc ∧ b.markerOpen = false
    · rw [startWrite_open b hc]
      simp only [Buffer.append, Buffer.startRedactable]
      split <;> simp
    · rw [startWrite_noop b hc]; simpa [Buffer.append] using hc
  simp only [Buffer.write]
  rw [h2]
  simp [Buffer.append]

/-! Non-vacuity -/
example : escapeMarkers ([0x61] ++ startB ++ [0xE2, 0x80] ++ endB) = [0x61, 0x3F, 0xE2, 0x80, 0x3F] := by decide
example : escapeBytes [0xE2, 0x0A, 0x80, 0xB9] = startB ++ [0xE2] ++ endB ++ [0x0A] ++ startB ++ [0x80, 0xB9, 0x3F] ++ endB := by decide

/-! ### The same, stated on the functions as the translator reads them off the source on every run
(`markers.EscapeMarkers`, `rfmt.EscapeBytes`; equality with the model: Props/TransMarkers.lean) -/

theorem translated_escapeMarkers_no_marker (l : List Byte) : ∀ x ∈ tokenize (Trans.M_EscapeMarkers l), x.isMarker = false := by
  rw [m_escapeMarkers]; exact escapeMarkers_no_marker l

theorem translated_escapeMarkers_spec (l : List Byte) : tokenize (Trans.M_EscapeMarkers l) = escT (tokenize l) := by
  rw [m_escapeMarkers]; exact escapeMarkers_spec l

theorem translated_escapeMarkers_idem (l : List Byte) : Trans.M_EscapeMarkers (Trans.M_EscapeMarkers l) = Trans.M_EscapeMarkers l := by
  simp only [m_escapeMarkers]; exact escapeMarkers_idem l

theorem escapeBytes_scanner_call (s : List Byte) :
    Trans.InternalEscapeBytes (startB ++ s) 3 true false = some (escapeBytesAt (startB ++ s) 3 true false) :=
  internalEscapeBytes_translated (startB ++ s) 3 true false (by simp [startB])

theorem translated_escapeBytes_wf (s : List Byte) : Obtainable (Trans.EscapeBytes s) := by
  rw [escapeBytes_translated]; exact escapeBytes_wf s

example : Trans.EscapeBytes [0xE2, 0x0A, 0x80, 0xB9] = startB ++ [0xE2] ++ endB ++ [0x0A] ++ startB ++ [0x80, 0xB9, 0x3F] ++ endB := by decide

end Redact
