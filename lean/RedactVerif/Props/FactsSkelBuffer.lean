import RedactVerif.Generated.Facts
/-
Regenerated facts: every decision, loop, call and assignment of internal/buffer/buffer.go and of
`escape.InternalEscapeBytes` (`Model/Buffer.lean`, `Model/Escape.lean` mirror them line by line).
Extracted from /repo on every run (extract/main.go) and compared here with what the model was
written against (frozen by tools/gen_expect.py after the correspondence had been run). A change
to any of these functions breaks the equality before any input is run: the check then reports the
violation, with a failing input if the harness finds one.
-/
namespace Redact

def expectSkelBuffer : List (String × List String) := [("Buffer.Cap", ["return cap(b.buf)"]),
  ("Buffer.GetMode", ["return b.mode"]),
  ("Buffer.Grow", ["if n < 0", "do panic(origFmt.Errorf(\"redact.Buffer.Grow: negative count\"))", "fi", "set m := b.grow(n)", "set b.buf = b.buf[:m]"]),
  ("Buffer.Len", ["set copy := *b", "do copy.finalize()", "return len(copy.buf)"]),
  ("Buffer.RedactableBytes", ["do b.finalize()", "return m.RedactableBytes(b.buf)"]),
  ("Buffer.RedactableString", ["do b.finalize()", "return m.RedactableString(b.buf)"]),
  ("Buffer.Reset", ["set b.buf = b.buf[:0]", "set b.validUntil = 0", "set b.mode = UnsafeEscaped", "set b.markerOpen = false"]),
  ("Buffer.SetMode", ["if b.mode == newMode", "return", "fi", "if b.mode == UnsafeEscaped || b.mode == SafeEscaped", "do b.escapeToEnd(b.mode == UnsafeEscaped)", "fi", "if b.markerOpen", "do b.endRedactable()", "fi", "set b.validUntil = len(b.buf)", "set b.mode = newMode"]),
  ("Buffer.String", ["do b.finalize()", "return m.RedactableString(b.buf).StripMarkers()"]),
  ("Buffer.TakeRedactableBytes", ["do b.finalize()", "set r := b.buf", "set b.buf = nil", "set b.validUntil = 0", "set b.mode = UnsafeEscaped", "return m.RedactableBytes(r)"]),
  ("Buffer.TakeRedactableString", ["if b == nil", "return \"<nil>\"", "fi", "do b.finalize()", "set r := *(*m.RedactableString)(unsafe.Pointer(&b.buf))", "set b.buf = nil", "set b.validUntil = 0", "set b.mode = UnsafeEscaped", "return r"]),
  ("Buffer.Write", ["do b.startWrite()", "set m,ok := b.tryGrowByReslice(len(p))", "if !ok", "set m = b.grow(len(p))", "fi", "return copy(b.buf[m:], p),nil"]),
  ("Buffer.WriteByte", ["do b.startWrite()", "if b.mode == UnsafeEscaped && (s >= utf8.RuneSelf || s == m.StartS[0] || s == m.EndS[0])", "set _,err := b.WriteString(m.EscapeMarkS)", "return err", "fi", "set m,ok := b.tryGrowByReslice(1)", "if !ok", "set m = b.grow(1)", "fi", "set b.buf[m] = s", "return nil"]),
  ("Buffer.WriteRune", ["do b.startWrite()", "set l := utf8.RuneLen(s)", "if l < 0", "set l = utf8.RuneLen(utf8.RuneError)", "fi", "set m,ok := b.tryGrowByReslice(l)", "if !ok", "set m = b.grow(l)", "fi", "set _ = utf8.EncodeRune(b.buf[m:], s)", "return nil"]),
  ("Buffer.WriteString", ["do b.startWrite()", "set m,ok := b.tryGrowByReslice(len(s))", "if !ok", "set m = b.grow(len(s))", "fi", "return copy(b.buf[m:], s),nil"]),
  ("Buffer.clone", ["set c := *b", "set c.buf = append([]byte(nil), b.buf...)", "return &c"]),
  ("Buffer.endRedactable", ["if len(b.buf) == 0", "return", "fi", "if bytes.HasSuffix(b.buf, m.StartBytes)", "set b.buf = b.buf[:len(b.buf)-m.StartLen]", "else", "set p,ok := b.tryGrowByReslice(m.EndLen)", "if !ok", "set p = b.grow(m.EndLen)", "fi", "do copy(b.buf[p:], m.EndS)", "fi", "set b.markerOpen = false"]),
  ("Buffer.escapeToEnd", ["set b.buf = escape.InternalEscapeBytes(b.buf, b.validUntil, breakNewLines, false)", "set b.validUntil = len(b.buf)"]),
  ("Buffer.finalize", ["if b.mode == SafeRaw", "set b.validUntil = len(b.buf)", "else", "do b.escapeToEnd(b.mode == UnsafeEscaped)", "fi", "if b.markerOpen", "do b.endRedactable()", "set b.validUntil = len(b.buf)", "fi"]),
  ("Buffer.grow", ["set m := len(b.buf)", "set i,ok := b.tryGrowByReslice(n)", "if ok", "return i", "fi", "if b.buf == nil && n <= smallBufferSize", "set b.buf = make([]byte, n, smallBufferSize)", "return 0", "fi", "set c := cap(b.buf)", "if n <= c/2-m", "else", "if c > maxInt-c-n", "do panic(ErrTooLarge)", "else", "set buf := makeSlice(2*c + n)", "do copy(buf, b.buf)", "set b.buf = buf", "fi", "fi", "set b.buf = b.buf[:m+n]", "return m"]),
  ("Buffer.startRedactable", ["if bytes.HasSuffix(b.buf, m.EndBytes)", "set b.buf = b.buf[:len(b.buf)-m.EndLen]", "else", "set p,ok := b.tryGrowByReslice(len(m.StartS))", "if !ok", "set p = b.grow(len(m.StartS))", "fi", "do copy(b.buf[p:], m.StartS)", "fi", "set b.markerOpen = true"]),
  ("Buffer.startWrite", ["if b.mode == UnsafeEscaped && !b.markerOpen", "do b.startRedactable()", "set b.validUntil = len(b.buf)", "fi"]),
  ("Buffer.tryGrowByReslice", ["set l := len(b.buf)", "if n <= cap(b.buf)-l", "set b.buf = b.buf[:l+n]", "return l,true", "fi", "return 0,false"]),
  ("InternalEscapeBytes", ["set start,ls := m.StartBytes,len(m.StartS)", "set end,le := m.EndBytes,len(m.EndS)", "set escape := m.EscapeMarkBytes", "if strip", "set end := len(b)", "set i := end - 1", "for i >= startLoc", "if b[i] == '\\n' || b[i] == ' '", "set end = i", "else", "break", "fi", "set i--", "rof", "set b = b[:end]", "fi", "set res = b", "set copied := false", "set k := 0", "set i := startLoc", "for i < len(b)", "if breakNewLines && b[i] == '\\n'", "if !copied", "set res = make([]byte, 0, len(b))", "set copied = true", "fi", "set res = append(res, b[k:i]...)", "if bytes.HasSuffix(res, start)", "set res = res[:len(res)-ls]", "else", "set res = append(res, end...)", "fi", "set lastNewLine := i", "for lastNewLine < len(b) && b[lastNewLine] == '\\n'", "set lastNewLine++", "rof", "set res = append(res, b[i:lastNewLine]...)", "set res = append(res, start...)", "set k = lastNewLine", "set i = lastNewLine - 1", "else", "if i+ls <= len(b) && bytes.Equal(b[i:i+ls], start)", "if !copied", "set res = make([]byte, 0, len(b)+len(escape))", "set copied = true", "fi", "set res = append(res, b[k:i]...)", "set res = append(res, escape...)", "set k = i + ls", "set i += ls - 1", "else", "if i+le <= len(b) && bytes.Equal(b[i:i+le], end)", "if !copied", "set res = make([]byte, 0, len(b)+len(escape))", "set copied = true", "fi", "set res = append(res, b[k:i]...)", "set res = append(res, escape...)", "set k = i + le", "set i += le - 1", "fi", "fi", "fi", "set i++", "rof", "set r,s := utf8.DecodeLastRune(b)", "if s == 1 && r == utf8.RuneError", "if !copied", "set res = make([]byte, 0, len(b)+len(escape))", "set copied = true", "fi", "set res = append(res, b[k:]...)", "set res = append(res, escape...)", "set k = len(b)", "fi", "if copied", "set res = append(res, b[k:]...)", "fi", "return"])]

theorem gen_skel_buffer : Gen.skelBuffer = expectSkelBuffer := by decide

end Redact
