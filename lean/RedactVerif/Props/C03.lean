import RedactVerif.Props.C01
import RedactVerif.Props.FactsConsts
import RedactVerif.Props.FactsSkelBuffer
import RedactVerif.Props.TransBuffer
import RedactVerif.Props.TransEscape
/-
C03 — no envelope spans a line break: each output line is redactable alone.

`WFL` (the conclusion of every C01 theorem: `buffer_wf`, `builder_wf`,
`adapter_wf`, `escapeBytes_wf`) already contains line safety: the scanner
rejects a line feed inside an envelope. This file derives the consequences
the property states: cutting a well-formed line-safe redactable at *any*
line feed gives two well-formed line-safe redactables, and `Redact` /
`StripMarkers` commute with the cut (hence, by induction on the number of
line feeds, with splitting into lines and re-joining).
-/
namespace Redact

/-- A line feed byte is a synchronisation point of tokenisation. -/
theorem tokenize_cut_lf (a c : List Byte) :
    tokenize (a ++ LF :: c) = tokenize a ++ .b LF :: tokenize c := by
  have h1 : straddles a (LF :: c) = false := by
    unfold straddles; split <;> simp_all [LF]
  rw [tokenize_append_of_not_straddles a (LF :: c) h1, tokenize_plain_ne LF c (by decide)]

/-- Cutting at a line feed: both sides are well-formed and line-safe (token level). -/
theorem wfl_cut (a c : List Tok) (h : WFL (a ++ .b LF :: c)) : WFL a ∧ WFL c := by
  unfold WFL at *
  rw [scan_append] at h
  cases ha : scan a with
  | none => simp [ha] at h
  | some o =>
    cases o with
    | true => simp [ha, scanFrom] at h
    | false => simp [ha, scanFrom] at h; exact ⟨rfl, h⟩

theorem wfl_join (a c : List Tok) (ha : WFL a) (hc : WFL c) : WFL (a ++ .b LF :: c) := by
  unfold WFL at *
  rw [scan_append, ha]; simpa [scanFrom, scan] using hc

/-- `redactAux` over a concatenation whose first part ends outside any envelope. -/
theorem redactAux_append_closed (a b : List Tok) :
    (scanFrom false a = some false → redactAux none (a ++ b) = redactAux none a ++ redactAux none b) ∧
    (∀ acc, scanFrom true a = some false → redactAux (some acc) (a ++ b) = redactAux (some acc) a ++ redactAux none b) := by
  induction a with
  | nil => constructor <;> simp [scanFrom, redactAux]
  | cons t r ih =>
    constructor
    · intro h
      cases t with
      | s => simp only [scanFrom] at h; simp [redactAux, ih.2 [] h]
      | e => simp [scanFrom] at h
      | b x => simp only [scanFrom] at h; simp [redactAux, ih.1 h]
    · intro acc h
      cases t with
      | s => simp [scanFrom] at h
      | e => simp only [scanFrom] at h; simp [redactAux, ih.1 h]
      | b x =>
        simp only [scanFrom] at h
        split at h
        · simp at h
        · simp [redactAux, ih.2 _ h]

/-- `Redact` commutes with cutting a well-formed line-safe redactable at a line feed. -/
theorem redactT_cut (a c : List Tok) (h : WFL (a ++ .b LF :: c)) :
    redactT (a ++ .b LF :: c) = redactT a ++ .b LF :: redactT c := by
  have ⟨ha, _⟩ := wfl_cut a c h
  unfold redactT
  rw [(redactAux_append_closed a (.b LF :: c)).1 ha]
  simp [redactAux]

/-- `StripMarkers` commutes with cutting at a line feed (any token list). -/
theorem stripT_cut (a c : List Tok) : stripT (a ++ .b LF :: c) = stripT a ++ .b LF :: stripT c := by
  rw [stripT_append]; simp [stripT]

/-- **C03, byte level.** Cut any library output (anything `WFL`) at any of its
line feeds: both parts are well-formed and line-safe on their own, and
redacting / stripping the parts and re-joining them with the line feed gives
the same bytes as redacting / stripping the whole. -/
theorem lines_cut (a c : List Byte) (h : WFL (tokenize (a ++ LF :: c))) :
    WFL (tokenize a) ∧ WFL (tokenize c) ∧
    redact (a ++ LF :: c) = redact a ++ LF :: redact c ∧
    stripMarkers (a ++ LF :: c) = stripMarkers a ++ LF :: stripMarkers c := by
  rw [tokenize_cut_lf] at h
  have ⟨ha, hc⟩ := wfl_cut _ _ h
  refine ⟨ha, hc, ?_, ?_⟩
  · simp only [redact, tokenize_cut_lf, redactT_cut _ _ h, untok_append, untok_cons, Tok.bytes]
    simp
  · simp only [stripMarkers, tokenize_cut_lf, stripT_cut, untok_append, untok_cons, Tok.bytes]
    simp

/-- Unsafe data with line feeds at any position never yields an envelope that
spans a line break: instance for the buffer (every op sequence). -/
theorem buffer_lines (ops : List Op) (h : RunOk Buffer.init ops) (a c : List Byte)
    (hcut : (Buffer.init.run ops).redactableBytes = a ++ LF :: c) :
    WFL (tokenize a) ∧ WFL (tokenize c) ∧
    redact (a ++ LF :: c) = redact a ++ LF :: redact c := by
  have hw := buffer_wf ops h
  rw [hcut] at hw
  have := lines_cut a c hw
  exact ⟨this.1, this.2.1, this.2.2.1⟩

/-! Non-vacuity: an unsafe payload with leading, consecutive and trailing line feeds. -/
example : (Buffer.init.run [.write [0x0A, 0x61, 0x0A, 0x0A, 0x62, 0x0A]]).redactableBytes
    = [0x0A] ++ startB ++ [0x61] ++ endB ++ [0x0A, 0x0A] ++ startB ++ [0x62] ++ endB ++ [0x0A] := by decide

end Redact
