import RedactVerif.Generated.Facts
import RedactVerif.Model.Bytes
/-
Regenerated facts, part 1: the constants the model is written against are the
values the *current* code computes (`Generated/Facts.lean` is rewritten from
/repo on every run of ./check).
-/
namespace Redact

theorem gen_startB : startB = Gen.startB := by decide
theorem gen_endB : endB = Gen.endB := by decide
theorem gen_escB : escB = Gen.escB := by decide
theorem gen_redactedB : redactedB = Gen.redactedB := by decide

/-- The two regular expressions of `internal/markers` are `‹[^‹›]*›` and `[‹›]`
(the token-level `redactT`/`stripT` are written against exactly these). -/
theorem gen_regexps :
    Gen.reStripSensitive = startB ++ [0x5B, 0x5E] ++ startB ++ endB ++ [0x5D, 0x2A] ++ endB ∧
    Gen.reStripMarkers = [0x5B] ++ startB ++ endB ++ [0x5D] := by decide

/-- Mode numbering used by the line protocol (`m:<n>`), and `PreRedactable` is `SafeRaw`. -/
theorem gen_modes : Gen.modeUnsafeEscaped = 0 ∧ Gen.modeSafeEscaped = 1 ∧ Gen.modeSafeRaw = 2 ∧
    Gen.modePreRedactable = Gen.modeSafeRaw := by decide

end Redact
