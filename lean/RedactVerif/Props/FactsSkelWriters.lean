import RedactVerif.Generated.Facts
/-
Regenerated facts: the calls, in order, of every method of builder.StringBuilder and of the printer's
SafeWriter adapter in printer_adapter.go (`Model/Writer.lean`: `builderOps`, `adapterStep`).
Extracted from /repo on every run (extract/main.go) and compared here with what the model was
written against (frozen by tools/gen_expect.py after the correspondence had been run). A change
to any of these functions breaks the equality before any input is run: the check then reports the
violation, with a failing input if the harness finds one.
-/
namespace Redact

def expectCallsWriters : List (String × List String) := [("Join", ["JoinTo(&b, delim, s)", "return b.RedactableString()"]),
  ("JoinTo", ["= reflect.ValueOf(values)", "if v.Kind() != reflect.Slice", "w.Print(values)", "return", "= v.Len()", "if i > 0", "w.Print(delim)", "w.Print(v.Index(i).Interface())"]),
  ("StringBuilder.Print", ["b.SetMode(ib.PreRedactable)", "= ifmt.Fprint(&b.Buffer, args...)"]),
  ("StringBuilder.Printf", ["b.SetMode(ib.PreRedactable)", "= ifmt.Fprintf(&b.Buffer, format, args...)"]),
  ("StringBuilder.SafeByte", ["b.SetMode(ib.SafeEscaped)", "= b.Buffer.WriteByte(byte(s))"]),
  ("StringBuilder.SafeBytes", ["b.SetMode(ib.SafeEscaped)", "= b.Buffer.Write([]byte(s))"]),
  ("StringBuilder.SafeFloat", ["b.SetMode(ib.SafeEscaped)", "= ifmt.Fprintf(&b.Buffer, \"%v\", s)"]),
  ("StringBuilder.SafeFormat", ["p.Print(b.RedactableString())"]),
  ("StringBuilder.SafeInt", ["b.SetMode(ib.SafeEscaped)", "= ifmt.Fprintf(&b.Buffer, \"%d\", s)"]),
  ("StringBuilder.SafeRune", ["b.SetMode(ib.SafeEscaped)", "= b.Buffer.WriteRune(rune(s))"]),
  ("StringBuilder.SafeString", ["b.SetMode(ib.SafeEscaped)", "= b.Buffer.WriteString(string(s))"]),
  ("StringBuilder.SafeUint", ["b.SetMode(ib.SafeEscaped)", "= ifmt.Fprintf(&b.Buffer, \"%d\", s)"]),
  ("StringBuilder.UnsafeByte", ["b.SetMode(ib.UnsafeEscaped)", "= b.Buffer.WriteByte(s)"]),
  ("StringBuilder.UnsafeBytes", ["b.SetMode(ib.UnsafeEscaped)", "= b.Buffer.Write(s)"]),
  ("StringBuilder.UnsafeRune", ["b.SetMode(ib.UnsafeEscaped)", "= b.Buffer.WriteRune(s)"]),
  ("StringBuilder.UnsafeString", ["b.SetMode(ib.UnsafeEscaped)", "= b.Buffer.WriteString(s)"]),
  ("StringBuilder.Write", ["b.SetMode(ib.UnsafeEscaped)", "return b.Buffer.Write(s)"]),
  ("StringBuilder.WriteByte", ["b.SetMode(ib.UnsafeEscaped)", "return b.Buffer.WriteByte(c)"]),
  ("StringBuilder.WriteRune", ["b.SetMode(ib.UnsafeEscaped)", "return b.Buffer.WriteRune(r)"]),
  ("StringBuilder.WriteString", ["b.SetMode(ib.UnsafeEscaped)", "return b.Buffer.WriteString(s)"]),
  ("pp.Print", ["defer p.buf.SetMode(p.buf.GetMode())", "= newPrinter()", "defer p.endNested(np)", "np.doPrint(args)"]),
  ("pp.Printf", ["defer p.buf.SetMode(p.buf.GetMode())", "= newPrinter()", "defer p.endNested(np)", "np.doPrintf(format, arg)"]),
  ("pp.SafeByte", ["defer p.startSafeOverride().restore()", "p.buf.WriteByte(byte(r))"]),
  ("pp.SafeBytes", ["defer p.startSafeOverride().restore()", "p.buf.Write(r)"]),
  ("pp.SafeFloat", ["defer p.startSafeOverride().restore()", "p.fmtFloat(float64(s), 64, 'v')"]),
  ("pp.SafeInt", ["defer p.startSafeOverride().restore()", "p.fmtInteger(uint64(s), signed, 'd')"]),
  ("pp.SafeRune", ["defer p.startSafeOverride().restore()", "p.buf.WriteRune(rune(r))"]),
  ("pp.SafeString", ["defer p.startSafeOverride().restore()", "p.buf.WriteString(string(s))"]),
  ("pp.SafeUint", ["defer p.startSafeOverride().restore()", "p.fmtInteger(uint64(s), unsigned, 'd')"]),
  ("pp.UnsafeByte", ["defer p.startUnsafe().restore()", "= p.buf.WriteByte(bb)"]),
  ("pp.UnsafeBytes", ["defer p.startUnsafe().restore()", "= p.buf.Write(bs)"]),
  ("pp.UnsafeRune", ["defer p.startUnsafe().restore()", "= p.buf.WriteRune(r)"]),
  ("pp.UnsafeString", ["defer p.startUnsafe().restore()", "= p.buf.WriteString(s)"]),
  ("pp.endNested", ["np.free()"])]

theorem gen_calls_writers : Gen.callsWriters = expectCallsWriters := by decide

end Redact
