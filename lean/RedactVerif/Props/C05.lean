import RedactVerif.Props.TransPP
import RedactVerif.Props.L2
import RedactVerif.Proofs.U.Top
import RedactVerif.Props.FactsClassify
import RedactVerif.Proofs.PrinterNI
import RedactVerif.Props.FactsSkelPrinter
/-
C05 — exactly the unsafe arguments are enveloped; declared-safe data stays visible.

What is proved (for the whole modelled universe, every oracle, every fuel):
* the frame theorem: `printArg` / `printValue` / every user-method script return
  with the buffer mode and the override they were entered with, on every path
  including caught panics (`printArg_frame`, `printValue_frame`, `script_frame`) —
  the restorer pattern of helpers.go;
* the classification of leaf writes: the rendering of a basic value is written
  between a switch to unsafe mode and the switch back, unless a safe override
  (SafeValue, registered type, Safe(), SafePrinter safe call) is in force, in
  which case it is written in the ambient mode (`leaf_classified`);
* registered / SafeValue operands are printed under a safe override
  (`declared_safe_bracket`).

* the text outside envelopes does not depend on the arguments that are not
  declared safe (`sprintf_safe_text_independent`, `sprint_safe_text_independent`):
  for two runs as in C02 (renderings equal on declared-safe leaves, same shape
  elsewhere) `dropEnv` of the two outputs is the same byte string — nothing of
  an undeclared argument, not even its padding or quotes, is outside.

FULL STATEMENT (partly proved): `dropEnv (output) = plain rendering with the
unsafe leaves blanked`. The independence half is the theorem above; that the
common value is what fmt prints for the safe parts rests on the byte-exact
correspondence of the printer model (P-model) and the real-code oracles
(P-envelopes: leaf extents and sentinel positions).
-/
namespace Redact

theorem printArg_frame (env : Env) (he : EnvOk env) (n : Nat) (p : PP) (hp : Pre p) (v : Val) (hv : ValOk v)
    (verb : Nat) (q : PP) (h : printArg env n p v verb = .ok q) :
    Inv q.buf ∧ q.buf.mode = p.buf.mode ∧ q.override = p.override :=
  ((spec_all env he n).printArg p v verb hp hv).1 q h

theorem printValue_frame (env : Env) (he : EnvOk env) (n : Nat) (p : PP) (hp : Pre p) (v : Val) (hv : ValOk v)
    (verb d : Nat) (ro : Bool) (q : PP) (h : printValue env n p v verb d ro = .ok q) :
    Inv q.buf ∧ q.buf.mode = p.buf.mode ∧ q.override = p.override :=
  ((spec_all env he n).printValue p v verb d ro hp hv).1 q h

/-- A user method (SafeFormat, Format, error hook) that finishes or panics
leaves mode and override as it found them. -/
theorem script_frame (env : Env) (he : EnvOk env) (n : Nat) (p : PP) (hp : Pre p) (sc : Script) (hsc : ScriptOk sc) :
    match runScript env n p sc with
    | .ok q => q.buf.mode = p.buf.mode ∧ q.override = p.override
    | .raised q _ => q.buf.mode = p.buf.mode ∧ q.override = p.override
    | .abort _ => True := by
  have := (spec_all env he n).runScript p sc hp hsc
  cases h : runScript env n p sc with
  | ok q => rw [h] at this; exact ⟨this.2.1, this.2.2⟩
  | raised q pl => rw [h] at this; exact ⟨this.1.2.1, this.1.2.2⟩
  | abort r => trivial

/-- **Classification of leaf writes.** What `leafWrite1` (every `defer
p.startUnsafe().restore(); p.fmt.fmtX(v)` site of print.go) does to the buffer:
under no override or an unsafe override the rendering is written in unsafe mode
and the previous mode is restored; under a safe override it is written in the
ambient mode. -/
theorem leaf_classified (env : Env) (p q : PP) (id verb : Nat) (h : leafWrite1 env p id verb = .ok q) :
    ∃ bytes, q.override = p.override ∧
      q.buf = (if p.override ≠ .ovSafe then ((p.buf.setMode .unsafeEsc).write bytes).setMode p.buf.mode
               else (p.buf.write bytes).setMode p.buf.mode) := by
  unfold leafWrite1 at h
  split at h
  · cases h
  · split at h
    · cases h
    · rename_i d _ bytes _
      refine ⟨bytes, ?_⟩
      unfold bracket PP.startUnsafe at h
      by_cases ho : p.override ≠ .ovSafe
      · rw [if_pos ho] at h
        simp only [Res.bind, Res.ok.injEq] at h
        subst h
        simp [PP.restore, PP.w, ho]
      · rw [if_neg ho] at h
        simp only [Res.bind, Res.ok.injEq] at h
        subst h
        simp [PP.restore, PP.w, ho]

/-- **The complete rendering of an unsafe leaf is inside envelopes**: what `leaf_classified` says a
leaf write does when no safe override is in force — switch to unsafe mode, write the rendering
(padding, sign, quotes, prefixes and all: they are part of `bytes`), switch back — leaves the buffer
closed and validated, and outside envelopes nothing but line feeds was added to what the output
would have been without the leaf (`finalize`). The hypothesis `hT`: the text before the leaf does
not end in a truncated character. -/
theorem unsafe_write_enveloped (b : Buffer) (hi : Inv b) (hm : b.mode ≠ .unsafeEsc)
    (hT : tailBad b.finalize.buf = false) (bytes : List Byte) :
    let b' := ((b.setMode .unsafeEsc).write bytes).setMode b.mode
    b'.validUntil = b'.buf.length ∧ b'.markerOpen = false ∧
      ∃ l, OnlyLFs l ∧ U.fT b' = U.fT b.finalize ++ l := by
  intro b'
  have ⟨e1, v1, o1⟩ := setMode_buf b .unsafeEsc hi hm
  have h0 : BU (b.setMode .unsafeEsc) (b.setMode .unsafeEsc) :=
    BU.refl (inv_setMode _ _ hi) (setMode_mode _ _) (fun _ => by rw [e1]; exact hT)
  have ⟨_, vv, oo, l, ol, el⟩ := U.BU_exit (BU_write h0 bytes) b.mode hm
  refine ⟨vv, oo, l, ol, ?_⟩
  show U.fT (((b.setMode .unsafeEsc).write bytes).setMode b.mode) = _
  rw [el]
  congr 1
  show safeText (evT (tokenize (b.setMode .unsafeEsc).pre)) = _
  rw [pre_of_full v1, e1]
  rfl

/-- Registered safe types and SafeValues are printed under a safe override:
`printArg` of such a value is its body bracketed by `startSafeOverride`. -/
theorem declared_safe_bracket (env : Env) (n : Nat) (p : PP) (v : Val) (verb : Nat)
    (hw : ∀ w, v ≠ .safeW w ∧ v ≠ .unsafeW w) (hs : isSafeValue v = true) (hr : isRegistered v = false) :
    printArg env (n + 1) p v verb = bracket PP.startSafeOverride p fun q => printArgBody env n q v verb := by
  cases v with
  | safeW w => exact absurd rfl (hw w).1
  | unsafeW w => exact absurd rfl (hw w).2
  | _ => simp [printArg, hs, hr]

/-- What is visible outside envelopes after a print call. -/
def Res.safeText : Res → Option (List Byte)
  | .ok p => some (dropEnv p.buf.redactableBytes)
  | _ => none

theorem safeText_eq_of_RR {pub : Nat → Prop} {ov0 : Override} {r1 r2 : Res} (h : RR pub ov0 r1 r2) : r1.safeText = r2.safeText := by
  cases r1 <;> cases r2 <;> simp only [RR] at h <;> try (exact h.elim)
  · simp only [Res.safeText]
    rw [dropEnv_eq_of_brel _ _ h.1.b]
  all_goals rfl

/-- **C05, independence half.** The text outside envelopes is the same whatever the
arguments not declared safe render as (same shape). -/
theorem sprintf_safe_text_independent (pub : Nat → Prop) (env1 env2 : Env) (he : EnvRel pub env1 env2)
    (format : List Byte) (args : List Val) (hok : ListOk args) (hs : ∀ v ∈ args, SecV pub v) :
    (sprintf env1 format args).safeText = (sprintf env2 format args).safeText :=
  safeText_eq_of_RR ((rspec_all he defaultFuel).doPrintf .no _ _ format args
    ⟨brel_init, by show Buffer.init.mode ≠ .raw; decide, rfl, rfl, rfl, rfl, rfl, rfl, rfl, rfl⟩ rfl hok hs)

theorem sprint_safe_text_independent (pub : Nat → Prop) (env1 env2 : Env) (he : EnvRel pub env1 env2)
    (args : List Val) (hok : ListOk args) (hs : ∀ v ∈ args, SecV pub v) :
    (sprint env1 args).safeText = (sprint env2 args).safeText :=
  safeText_eq_of_RR ((rspec_all he defaultFuel).doPrint .no _ _ args
    ⟨brel_init, by show Buffer.init.mode ≠ .raw; decide, rfl, rfl, rfl, rfl, rfl, rfl, rfl, rfl⟩ rfl hok hs)

/-! Non-vacuity -/
example : Pre newPP := pre_newPP
example : isSafeValue (.leaf 0 .str ([0x6D, 0x61, 0x69, 0x6E, 0x2E, 0x53, 0x61, 0x66, 0x65, 0x53, 0x74, 0x72] /- "main.SafeStr" -/ : List UInt8) none true false) = true := rfl

end Redact
