import RedactVerif.Props.TransBuffer
import RedactVerif.Model.Writer
/-
The tie for `builder/builder.go` by translation: the StringBuilder's SafeWriter methods that do not
go through the printer, as read off /repo on every run (`Trans.SB_*`), compute what the model's
`builderOps` (Model/Writer.lean — the alphabet of C09's call sequences) says: select the mode, then
delegate to the buffer. `Print`, `Printf`, `SafeInt`, `SafeUint`, `SafeFloat` call `rfmt.Fprint*` on the
embedded buffer and are not translated (their call lists are extracted: Props/FactsSkelWriters.lean).
-/
namespace Redact

theorem sb_safeString (b : Buffer) (s : List Byte) :
    Trans.SB_SafeString (conc b) s = conc (b.run (builderOps (.safeString s))) := by
  have h := setMode_translated b .safeEsc
  simp only [modeInt] at h
  simp only [Trans.SB_SafeString, Id.run, h, writeString_translated]
  rfl

theorem sb_safeBytes (b : Buffer) (s : List Byte) :
    Trans.SB_SafeBytes (conc b) s = conc (b.run (builderOps (.safeString s))) := by
  have h := setMode_translated b .safeEsc
  simp only [modeInt] at h
  simp only [Trans.SB_SafeBytes, Id.run, h, write_translated]
  rfl

theorem sb_safeByte (b : Buffer) (x : Byte) :
    Trans.SB_SafeByte (conc b) x = conc (b.run (builderOps (.safeByte x))) := by
  have h := setMode_translated b .safeEsc
  simp only [modeInt] at h
  simp only [Trans.SB_SafeByte, Id.run, h, writeByte_translated]
  rfl

theorem sb_safeRune (b : Buffer) (r : Int) :
    Trans.SB_SafeRune (conc b) r = conc (b.run (builderOps (.safeRune r))) := by
  have h := setMode_translated b .safeEsc
  simp only [modeInt] at h
  simp only [Trans.SB_SafeRune, Id.run, h, writeRune_translated]
  rfl

theorem sb_unsafeString (b : Buffer) (s : List Byte) :
    Trans.SB_UnsafeString (conc b) s = conc (b.run (builderOps (.unsafeString s))) := by
  have h := setMode_translated b .unsafeEsc
  simp only [modeInt] at h
  simp only [Trans.SB_UnsafeString, Id.run, h, writeString_translated]
  rfl

theorem sb_unsafeBytes (b : Buffer) (s : List Byte) :
    Trans.SB_UnsafeBytes (conc b) s = conc (b.run (builderOps (.unsafeString s))) := by
  have h := setMode_translated b .unsafeEsc
  simp only [modeInt] at h
  simp only [Trans.SB_UnsafeBytes, Id.run, h, write_translated]
  rfl

theorem sb_unsafeByte (b : Buffer) (x : Byte) :
    Trans.SB_UnsafeByte (conc b) x = conc (b.run (builderOps (.unsafeByte x))) := by
  have h := setMode_translated b .unsafeEsc
  simp only [modeInt] at h
  simp only [Trans.SB_UnsafeByte, Id.run, h, writeByte_translated]
  rfl

theorem sb_unsafeRune (b : Buffer) (r : Int) :
    Trans.SB_UnsafeRune (conc b) r = conc (b.run (builderOps (.unsafeRune r))) := by
  have h := setMode_translated b .unsafeEsc
  simp only [modeInt] at h
  simp only [Trans.SB_UnsafeRune, Id.run, h, writeRune_translated]
  rfl

/-- The io.Writer / io.StringWriter / io.ByteWriter side of the builder is unsafe. -/
theorem sb_write (b : Buffer) (s : List Byte) :
    (Trans.SB_Write (conc b) s).1 = conc (b.run (builderOps (.unsafeString s))) ∧
    (Trans.SB_WriteString (conc b) s).1 = conc (b.run (builderOps (.unsafeString s))) := by
  have h := setMode_translated b .unsafeEsc
  simp only [modeInt] at h
  constructor
  · simp only [Trans.SB_Write, Id.run, h, write_translated]; rfl
  · simp only [Trans.SB_WriteString, Id.run, h, writeString_translated]; rfl

theorem sb_writeByte (b : Buffer) (x : Byte) :
    (Trans.SB_WriteByte (conc b) x).1 = conc (b.run (builderOps (.unsafeByte x))) := by
  have h := setMode_translated b .unsafeEsc
  simp only [modeInt] at h
  simp only [Trans.SB_WriteByte, Id.run, h, writeByte_translated]; rfl

theorem sb_writeRune (b : Buffer) (r : Int) :
    (Trans.SB_WriteRune (conc b) r).1 = conc (b.run (builderOps (.unsafeRune r))) := by
  have h := setMode_translated b .unsafeEsc
  simp only [modeInt] at h
  simp only [Trans.SB_WriteRune, Id.run, h, writeRune_translated]; rfl

end Redact
