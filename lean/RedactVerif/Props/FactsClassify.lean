import RedactVerif.Generated.Facts
import RedactVerif.Model.Printer
/-
Regenerated facts, part 2: the classification skeleton of `internal/rfmt/print.go`
the printer model mirrors — the verb tables of the leaf formatters, which
functions bracket their writes with `startUnsafe`, that every `start*()` call is
a deferred `…restore()`, and the verbs under which a SafeMessager's text is
printed under the safe override (D10).
-/
namespace Redact

theorem gen_verbs_bool : ∀ v, verbOkFor .bool v = true ↔ v ∈ Gen.verbsBool := by
  intro v; simp [verbOkFor, Gen.verbsBool]
theorem gen_verbs_sint : ∀ v, verbOkFor .sint v = true ↔ v ∈ Gen.verbsInteger := by
  intro v; simp [verbOkFor, Gen.verbsInteger]; omega
theorem gen_verbs_uint : ∀ v, verbOkFor .uint v = true ↔ v ∈ Gen.verbsInteger := by
  intro v; simp [verbOkFor, Gen.verbsInteger]; omega
theorem gen_verbs_float : ∀ v, verbOkFor .float v = true ↔ v ∈ Gen.verbsFloat := by
  intro v; simp [verbOkFor, Gen.verbsFloat]; omega
theorem gen_verbs_str : ∀ v, verbOkFor .str v = true ↔ v ∈ Gen.verbsString := by
  intro v; simp [verbOkFor, Gen.verbsString]; omega
theorem gen_verbs_ptr : ∀ v, verbOkFor .ptr v = true ↔ v ∈ Gen.verbsPointer := by
  intro v; simp [verbOkFor, Gen.verbsPointer]; omega

/-- D10: the safe override around a SafeMessager's text is conditional, on exactly the verbs
`fmtString` accepts. -/
theorem gen_safeMessager : Gen.safeMessagerOverrideUnconditional = false ∧
    ∀ v, verbOkFor .str v = true ↔ v ∈ Gen.verbsSafeMessagerOverride := by
  refine ⟨by decide, ?_⟩
  intro v; simp [verbOkFor, Gen.verbsSafeMessagerOverride]; omega

/-- Every `start*()` is the operand of a deferred `restore()` (the bracket pattern of the model),
and every leaf formatter and both `fmt.State` write methods switch to unsafe mode. -/
theorem gen_brackets : Gen.startCallsNotDeferred = [] ∧
    ∀ s ∈ ["fmtBool", "fmt0x64", "fmtInteger", "fmtFloat", "fmtString", "fmtBytes", "fmtPointer", "Write", "WriteString",
           "UnsafeString", "UnsafeBytes", "UnsafeByte", "UnsafeRune"], s ∈ Gen.unsafeSites := by decide

/-- Only the recognised places start an override or raw mode. -/
theorem gen_override_sites :
    Gen.unsafeOverrideSites = ["handleSpecialValues", "printArg"] ∧
    Gen.preRedactableSites = ["handleSpecialValues", "printArg"] ∧
    Gen.safeOverrideSites = ["SafeByte", "SafeBytes", "SafeFloat", "SafeInt", "SafeRune", "SafeString", "SafeUint",
      "handleMethods", "handleSpecialValues", "printArg", "printValue"] := by decide

/-! ### G4: the decisions of `handleMethods`, `printArg` and `catchPanic`, in source order

The model's `handleMethods`/`methDispatch`, the prologue of `printArg`/`printSlot` and `catchPanic`
mirror these decision lists (if-conditions, type switches with their case types, verb switches,
type assertions, deferred calls, returns). They are extracted from print.go on every run; a change
of the order of dispatch, of a guard, of the verbs of a case, or of what is deferred where, breaks
these equalities before any input is run. -/

def expectHandleMethods : List String := [
   "if p.erroring", "return", "fi", "if verb == 'w'", "assert error",
   "if !ok || !p.wrapErrs || p.wrappedErr != nil", "return true", "fi", "fi",
   "if p.override != overrideUnsafe", "typeswitch", "case i.SafeFormatter", "defer p.catchPanic", "return",
   "case i.SafeMessager", "defer p.catchPanic", "switch verb", "case 'v','s','x','X','q'",
   "defer p.startSafeOverride().restore", "end", "return", "case error", "if redactErrorFn != nil",
   "defer p.catchPanic", "return", "fi", "end", "fi", "assert Formatter", "if ok", "defer p.catchPanic",
   "return", "fi", "if p.fmt.sharpV", "assert GoStringer", "if ok", "defer p.catchPanic",
   "defer p.startUnsafe().restore", "return", "fi", "else", "switch verb", "case 'v','s','x','X','q'",
   "typeswitch", "case error", "defer p.catchPanic", "return", "case Stringer", "defer p.catchPanic",
   "return", "end", "end", "fi", "return false"]

def expectPrintArg : List String := [
   "if t == safeWrapperType", "defer p.startSafeOverride().restore", "assert w.SafeWrapper", "else",
   "defer p.startUnsafeOverride().restore", "assert w.UnsafeWrap", "fi", "if safeTypeRegistry[t]",
   "defer p.startSafeOverride().restore", "fi", "assert i.SafeValue", "if ok",
   "defer p.startSafeOverride().restore", "fi", "if arg == nil", "switch verb", "case 'T','v'",
   "case default", "end", "return", "fi", "switch verb", "case 'T'", "return", "case 'p'", "return", "end",
   "typeswitch", "case bool", "case float32", "case float64", "case complex64", "case complex128",
   "case int", "case int8", "case int16", "case int32", "case int64", "case uint", "case uint8",
   "case uint16", "case uint32", "case uint64", "case uintptr", "case string", "case []byte",
   "case reflect.Value", "if f.IsValid()", "if p.handleSpecialValues(f, t, verb, 0)", "return", "fi",
   "if safeTypeRegistry[t]", "defer p.startSafeOverride().restore", "fi", "if f.CanInterface()",
   "assert i.SafeValue", "if ok", "defer p.startSafeOverride().restore", "fi", "if p.handleMethods(verb)",
   "return", "fi", "fi", "fi", "case m.RedactableString", "defer p.startPreRedactable().restore", "return",
   "case m.RedactableBytes", "defer p.startPreRedactable().restore", "return", "case default",
   "if !p.handleMethods(verb)", "fi", "end"]

def expectCatchPanic : List String := [
   "if err != nil", "if v.Kind() == reflect.Ptr && v.IsNil()", "return", "fi", "if p.panicking", "fi", "fi"]

theorem gen_handleMethods_skeleton : Gen.handleMethodsSkeleton = expectHandleMethods := by decide
theorem gen_printArg_skeleton : Gen.printArgSkeleton = expectPrintArg := by decide
theorem gen_catchPanic_skeleton : Gen.catchPanicSkeleton = expectCatchPanic := by decide

end Redact
