import RedactVerif.Generated.Facts
import RedactVerif.Model.Printer
/-
Regenerated facts, part 2: the classification skeleton of `internal/rfmt/print.go`
the printer model mirrors — the verb tables of the leaf formatters, which
functions bracket their writes with `startUnsafe`, that every `start*()` call is
a deferred `…restore()`, and the verbs under which a SafeMessager's text is
printed under the safe override (D10).
-/
namespace Redact

theorem gen_verbs_bool : ∀ v, verbOkFor .bool v = true ↔ v ∈ Gen.verbsBool := by
  intro v; simp [verbOkFor, Gen.verbsBool]
theorem gen_verbs_sint : ∀ v, verbOkFor .sint v = true ↔ v ∈ Gen.verbsInteger := by
  intro v; simp [verbOkFor, Gen.verbsInteger]; omega
theorem gen_verbs_uint : ∀ v, verbOkFor .uint v = true ↔ v ∈ Gen.verbsInteger := by
  intro v; simp [verbOkFor, Gen.verbsInteger]; omega
theorem gen_verbs_float : ∀ v, verbOkFor .float v = true ↔ v ∈ Gen.verbsFloat := by
  intro v; simp [verbOkFor, Gen.verbsFloat]; omega
theorem gen_verbs_str : ∀ v, verbOkFor .str v = true ↔ v ∈ Gen.verbsString := by
  intro v; simp [verbOkFor, Gen.verbsString]; omega
theorem gen_verbs_ptr : ∀ v, verbOkFor .ptr v = true ↔ v ∈ Gen.verbsPointer := by
  intro v; simp [verbOkFor, Gen.verbsPointer]; omega

/-- D10: the safe override around a SafeMessager's text is conditional, on exactly the verbs
`fmtString` accepts. -/
theorem gen_safeMessager : Gen.safeMessagerOverrideUnconditional = false ∧
    ∀ v, verbOkFor .str v = true ↔ v ∈ Gen.verbsSafeMessagerOverride := by
  refine ⟨by decide, ?_⟩
  intro v; simp [verbOkFor, Gen.verbsSafeMessagerOverride]; omega

/-- Every `start*()` is the operand of a deferred `restore()` (the bracket pattern of the model),
and every leaf formatter and both `fmt.State` write methods switch to unsafe mode. -/
theorem gen_brackets : Gen.startCallsNotDeferred = [] ∧
    ∀ s ∈ ["fmtBool", "fmt0x64", "fmtInteger", "fmtFloat", "fmtString", "fmtBytes", "fmtPointer", "Write", "WriteString",
           "UnsafeString", "UnsafeBytes", "UnsafeByte", "UnsafeRune"], s ∈ Gen.unsafeSites := by decide

/-- Only the recognised places start an override or raw mode. -/
theorem gen_override_sites :
    Gen.unsafeOverrideSites = ["handleSpecialValues", "printArg"] ∧
    Gen.preRedactableSites = ["handleSpecialValues", "printArg"] ∧
    Gen.safeOverrideSites = ["SafeByte", "SafeBytes", "SafeFloat", "SafeInt", "SafeRune", "SafeString", "SafeUint",
      "handleMethods", "handleSpecialValues", "printArg", "printValue"] := by decide

end Redact
