import RedactVerif.Props.TransBuffer
import RedactVerif.Model.Printer
/-
The tie for the printer's mode/override brackets (`internal/rfmt/helpers.go`: `startUnsafe`,
`startPreRedactable`, `startSafeOverride`, `startUnsafeOverride`, `restorer.restore`) and for the SafeWriter
methods of the printer that are one bracket around one buffer write (`internal/rfmt/printer_adapter.go`:
`SafeString SafeRune SafeByte SafeBytes UnsafeString UnsafeByte UnsafeBytes UnsafeRune`), by translation.
`Generated/Trans.lean` holds them as the translator reads them off /repo on every run (`Trans.PP_*`); here each is
proved to compute what the model's `PP.start*` / `PP.restore` (Model/Printer.lean — the brackets every
classification theorem of C02/C05/C06/C08 is about) and the model's script steps compute, on every printer state.
The override constants are read off the `iota` block of helpers.go.
-/
namespace Redact

def ovInt : Override → Int
  | .no => 0
  | .ovSafe => 1
  | .ovUnsafe => 2

/-- A model printer as the translated code sees it (the flags and bookkeeping fields are not touched by brackets). -/
@[reducible] def concPP (p : PP) : GoPP := { buf := conc p.buf, override := ovInt p.override }

@[reducible] def concR (r : PP.Restorer) : GoRestorer := { prevMode := modeInt r.prevMode, prevOverride := ovInt r.prevOverride }

theorem ovInt_ne_one (o : Override) : (ovInt o != 1) = decide (o ≠ .ovSafe) := by cases o <;> decide
theorem ovInt_ne_two (o : Override) : (ovInt o != 2) = decide (o ≠ .ovUnsafe) := by cases o <;> decide
theorem ovInt_eq_zero (o : Override) : (ovInt o == 0) = decide (o = .no) := by cases o <;> decide

theorem startUnsafe_translated (p : PP) :
    Trans.PP_startUnsafe (concPP p) = (concPP p.startUnsafe.1, concR p.startUnsafe.2) := by
  have h := setMode_translated p.buf .unsafeEsc
  simp only [modeInt] at h
  simp only [Trans.PP_startUnsafe, Id.run, getMode_translated, ovInt_ne_one, PP.startUnsafe]
  cases ho : p.override <;> first | (simp [h, ovInt, ho]; done) | (simp [h, ovInt, ho]; rfl)

theorem startPreRedactable_translated (p : PP) :
    Trans.PP_startPreRedactable (concPP p) = (concPP p.startPreRedactable.1, concR p.startPreRedactable.2) := by
  have h := setMode_translated p.buf .raw
  simp only [modeInt] at h
  simp only [Trans.PP_startPreRedactable, Id.run, getMode_translated, ovInt_ne_two, PP.startPreRedactable]
  cases ho : p.override <;> first | (simp [h, ovInt, ho]; done) | (simp [h, ovInt, ho]; rfl)

theorem startSafeOverride_translated (p : PP) :
    Trans.PP_startSafeOverride (concPP p) = (concPP p.startSafeOverride.1, concR p.startSafeOverride.2) := by
  have h := setMode_translated p.buf .safeEsc
  simp only [modeInt] at h
  simp only [Trans.PP_startSafeOverride, Id.run, getMode_translated, ovInt_eq_zero, PP.startSafeOverride]
  cases ho : p.override <;> first | (simp [h, ovInt, ho]; done) | (simp [h, ovInt, ho]; rfl)

theorem startUnsafeOverride_translated (p : PP) :
    Trans.PP_startUnsafeOverride (concPP p) = (concPP p.startUnsafeOverride.1, concR p.startUnsafeOverride.2) := by
  have h := setMode_translated p.buf .unsafeEsc
  simp only [modeInt] at h
  simp only [Trans.PP_startUnsafeOverride, Id.run, getMode_translated, ovInt_eq_zero, PP.startUnsafeOverride]
  cases ho : p.override <;> first | (simp [h, ovInt, ho]; done) | (simp [h, ovInt, ho]; rfl)

theorem restore_translated (p : PP) (r : PP.Restorer) :
    Trans.PP_restore (concR r) (concPP p) = concPP (p.restore r) := by
  simp only [Trans.PP_restore, Id.run, setMode_translated, PP.restore]
  rfl

/-! The SafeWriter methods of the printer: a bracket around one buffer write — what the model's script steps
(`runScript`: `.safeString`, `.safeRune`, `.unsafeString`, `.write`) and C09's adapter alphabet do. -/

theorem pp_safeString (p : PP) (s : List Byte) :
    Trans.PP_SafeString (concPP p) s = concPP ((p.startSafeOverride.1.w s).restore p.startSafeOverride.2) := by
  simp only [Trans.PP_SafeString, Id.run, startSafeOverride_translated, writeString_translated]
  exact restore_translated (p.startSafeOverride.1.w s) p.startSafeOverride.2

theorem pp_safeBytes (p : PP) (s : List Byte) :
    Trans.PP_SafeBytes (concPP p) s = concPP ((p.startSafeOverride.1.w s).restore p.startSafeOverride.2) := by
  simp only [Trans.PP_SafeBytes, Id.run, startSafeOverride_translated, write_translated]
  exact restore_translated (p.startSafeOverride.1.w s) p.startSafeOverride.2

theorem pp_safeRune (p : PP) (r : Int) :
    Trans.PP_SafeRune (concPP p) r = concPP ((p.startSafeOverride.1.wr r).restore p.startSafeOverride.2) := by
  simp only [Trans.PP_SafeRune, Id.run, startSafeOverride_translated, writeRune_translated]
  exact restore_translated (p.startSafeOverride.1.wr r) p.startSafeOverride.2

theorem pp_safeByte (p : PP) (x : Byte) :
    Trans.PP_SafeByte (concPP p) x = concPP ((p.startSafeOverride.1.wb x).restore p.startSafeOverride.2) := by
  simp only [Trans.PP_SafeByte, Id.run, startSafeOverride_translated, writeByte_translated]
  exact restore_translated (p.startSafeOverride.1.wb x) p.startSafeOverride.2

theorem pp_unsafeString (p : PP) (s : List Byte) :
    Trans.PP_UnsafeString (concPP p) s = concPP ((p.startUnsafe.1.w s).restore p.startUnsafe.2) := by
  simp only [Trans.PP_UnsafeString, Id.run, startUnsafe_translated, writeString_translated]
  exact restore_translated (p.startUnsafe.1.w s) p.startUnsafe.2

theorem pp_unsafeBytes (p : PP) (s : List Byte) :
    Trans.PP_UnsafeBytes (concPP p) s = concPP ((p.startUnsafe.1.w s).restore p.startUnsafe.2) := by
  simp only [Trans.PP_UnsafeBytes, Id.run, startUnsafe_translated, write_translated]
  exact restore_translated (p.startUnsafe.1.w s) p.startUnsafe.2

theorem pp_unsafeRune (p : PP) (r : Int) :
    Trans.PP_UnsafeRune (concPP p) r = concPP ((p.startUnsafe.1.wr r).restore p.startUnsafe.2) := by
  simp only [Trans.PP_UnsafeRune, Id.run, startUnsafe_translated, writeRune_translated]
  exact restore_translated (p.startUnsafe.1.wr r) p.startUnsafe.2

theorem pp_unsafeByte (p : PP) (x : Byte) :
    Trans.PP_UnsafeByte (concPP p) x = concPP ((p.startUnsafe.1.wb x).restore p.startUnsafe.2) := by
  simp only [Trans.PP_UnsafeByte, Id.run, startUnsafe_translated, writeByte_translated]
  exact restore_translated (p.startUnsafe.1.wb x) p.startUnsafe.2

end Redact
