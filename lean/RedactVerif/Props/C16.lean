import RedactVerif.Props.C01
import RedactVerif.Props.L2
import RedactVerif.Proofs.FuelMono
import RedactVerif.Proofs.Clean
import RedactVerif.Props.C09
import RedactVerif.Props.FactsSkelPrinter
import RedactVerif.Props.FactsSkelWriters
/-
C16 — all entry points agree on what a given argument list prints as.

In the model `Sprint`/`Fprint` (and `Sprintf`/`Fprintf`) are the same function
(`sprint`, `sprintf`); the F-variants' single `Write` and its `(n, err)` are I/O
and are checked on the real code (P-routes). What is proved here, for every
oracle, every argument list and every format:

* the StringBuilder route — the inner printer's finished output written in raw
  mode into an empty builder — hands back exactly that output
  (`builder_print_route`);
* the nested-printer route — `Sprintfn(func(w) { w.Print(args...) })` — gives
  byte for byte what `Sprint(args...)` gives (`nested_print_route`,
  `nested_printf_route`), provided the output does not end in a truncated
  multi-byte sequence (`tailBad … = false`): the nested route finalises the
  buffer once more when the outer printer restores its mode, and a second
  finalisation appends one more `?` after a dangling tail that was written raw
  (a pre-redacted operand ending in invalid UTF-8) — the one case in which
  `RedactableString()` is not idempotent.

* a StringBuilder that already holds text (`builder_route_lab`): after `Print`/`Printf` it reads,
  byte for byte and side for side, as what it held followed by what `Sprint`/`Sprintf` returns —
  agreement up to merging of adjacent envelopes, as equality of the labelled reading (C09).

* the SafeFormat route (`safeformat_print_route`, `safeformat_route_same_output`): `Sprint(v)` for a
  `v` whose `SafeFormat` calls `w.Print(args...)` runs, inside the nested printer, the very
  `doPrintLoop` that `Sprint(args...)` runs, on the same printer state, and hands its result back
  unchanged: the same bytes. In the model the inner run has seven units less fuel; fuel is a proof
  device, and results do not depend on it beyond its being enough (`Proofs/FuelMono.lean`:
  `mspec_all`, for all 21 functions), so at any common fuel that suffices for the longer route the
  two routes print the same (`safeformat_route`).

The same agreement for an outer printer that already holds text (nested-printer route) rests on
the correspondence (B streams with `pr` operations, P-model scripts with nested prints) and the
real-code route oracle.
-/
namespace Redact

/-- Finalising a fully validated, closed buffer whose bytes have a clean tail changes nothing. -/
theorem finalize_of_full (c : Buffer) (hfull : c.validUntil = c.buf.length) (ho : c.markerOpen = false)
    (htb : tailBad c.buf = false) : c.finalize.buf = c.buf := by
  by_cases hm : c.mode = .raw
  · rw [finalize_raw c hm ho]
  · rw [finalize_esc_closed c hm ho]
    show escapeBytesAt c.buf c.validUntil _ false = c.buf
    simp [escapeBytesAt, hfull, htb, escGo]

/-- A mode switch followed by finalisation gives what finalisation alone gives, when the
finalised bytes have a clean tail. -/
theorem finalize_setMode (b : Buffer) (hi : Inv b) (m : Mode) (htb : tailBad b.finalize.buf = false) :
    (b.setMode m).finalize.buf = b.finalize.buf := by
  by_cases hsame : b.mode = m
  · rw [setMode_same b m hsame]
  · have hb : (b.setMode m).buf = b.finalize.buf ∧ (b.setMode m).validUntil = (b.setMode m).buf.length
        ∧ (b.setMode m).markerOpen = false := by
      by_cases hm : b.mode = .raw
      · have ⟨_, ho⟩ := full_of_raw b hi hm
        rw [setMode_raw b m hsame hm ho, finalize_raw b hm ho]
        exact ⟨rfl, rfl, ho⟩
      · cases ho : b.markerOpen with
        | false =>
          rw [setMode_esc_closed b m hsame hm ho, finalize_esc_closed b hm ho]
          exact ⟨rfl, rfl, by simp [escapeToEnd_markerOpen, ho]⟩
        | true =>
          rw [setMode_esc_open b m hsame hm ho, finalize_esc_open b hm ho]
          have ⟨hf, _, _⟩ := escapeToEnd_full b hi
          rw [ho] at hf
          have ⟨_, _, hmo, _⟩ := endRedactable_full _ hf
          exact ⟨rfl, rfl, hmo⟩
    rw [finalize_of_full _ hb.2.1 hb.2.2 (by rw [hb.1]; exact htb), hb.1]

/-- **StringBuilder route.** `sb.Print(args...)` on an empty builder: the inner printer's
output `r`, written in raw mode, comes back unchanged. -/
theorem builder_print_route (r : List Byte) : (builderRun Buffer.init [.print r]).redactableBytes = r := by
  simp [builderRun, builderOps, Buffer.run, Buffer.step, Buffer.setMode, Buffer.init, Buffer.escapeToEnd,
    escapeBytesAt, escGo, tailBad, Buffer.write, Buffer.startWrite, Buffer.append, Buffer.redactableBytes,
    Buffer.finalize]

/-- The nested printer started by `SafePrinter.Print` on a fresh printer is the fresh printer. -/
theorem nested_np_eq : ({ buf := newPP.buf, override := newPP.override } : PP) = newPP := rfl

/-- **Nested-printer route.** `Sprintfn(func(w) { w.Print(args...) })` against `Sprint(args...)`. -/
theorem nested_print_route (env : Env) (he : EnvOk env) (n : Nat) (args : Vals) (ha : ValsOk args) (q : PP)
    (h : doPrint env (n + 1) newPP args.toList = .ok q) (htb : tailBad q.buf.redactableBytes = false) :
    ∃ q', runScript env (n + 2) newPP (.print args .done) = .ok q' ∧ q'.buf.redactableBytes = q.buf.redactableBytes := by
  have hq := ((spec_all env he (n + 1)).doPrint newPP args.toList pre_newPP (listOk_of_valsOk _ ha)).1 q h
  refine ⟨{ newPP with buf := q.buf.setMode newPP.buf.mode }, ?_, ?_⟩
  · simp only [runScript, nested_np_eq, h]
  · exact finalize_setMode q.buf hq.1 _ htb

theorem nested_printf_route (env : Env) (he : EnvOk env) (n : Nat) (f : List Byte) (args : Vals) (ha : ValsOk args) (q : PP)
    (h : doPrintf env (n + 1) newPP f args.toList = .ok q) (htb : tailBad q.buf.redactableBytes = false) :
    ∃ q', runScript env (n + 2) newPP (.printf f args .done) = .ok q' ∧ q'.buf.redactableBytes = q.buf.redactableBytes := by
  have hq := ((spec_all env he (n + 1)).doPrintf newPP f args.toList pre_newPP (listOk_of_valsOk _ ha)).1 q h
  refine ⟨{ newPP with buf := q.buf.setMode newPP.buf.mode }, ?_, ?_⟩
  · simp only [runScript, nested_np_eq, h]
  · exact finalize_setMode q.buf hq.1 _ htb

/-- The exception is real: a raw fragment ending in a lone continuation byte is finalised
twice by the nested route. -/
theorem second_finalisation_can_add (x : Byte) (hx : x = 0xBF) :
    let b := (Buffer.init.setMode .raw).write [0x61, x]
    b.redactableBytes = [0x61, x] ∧ (b.setMode .safeEsc).redactableBytes = [0x61, x, 0x3F] := by
  subst hx; decide

/-! Non-vacuity -/
example : (builderRun Buffer.init [.print (startB ++ [0x78] ++ endB)]).redactableBytes = startB ++ [0x78] ++ endB :=
  builder_print_route _

/-- **The StringBuilder route on a builder that already holds text**: whatever calls `ws` built the
content, `Print`/`Printf` (the inner printer's finished output `r`, written raw) makes the builder
read as its previous content followed by `r` — the same bytes on the same sides; only the envelope
boundary between the two may be merged. -/
theorem builder_route_lab (ws : List WOp) (r : List Byte) (hw : ∀ w ∈ ws, CleanW w)
    (hr : Obtainable r ∧ RuneEnd (tokenize r)) :
    labT (tokenize (builderRun Buffer.init (ws ++ [.print r])).redactableBytes) =
      labT (tokenize (builderRun Buffer.init ws).redactableBytes) ++ labT (tokenize r) := by
  have h2 : ∀ w ∈ ws ++ [.print r], CleanW w := by
    intro w hw'
    simp only [List.mem_append, List.mem_singleton] at hw'
    rcases hw' with h | rfl
    · exact hw w h
    · exact hr
  rw [builder_lab_partial _ h2, builder_lab_partial _ hw]
  simp [List.flatMap_append, labW, pendLab]

/-- The printer after `doPrint`'s prologue on a fresh printer. -/
def p1 : PP := { newPP with buf := newPP.buf.setMode .safeEsc }

theorem p1_np : ({ buf := p1.buf, override := p1.override } : PP) = p1 := rfl
theorem p1_setSafe : p1.buf.setMode .safeEsc = p1.buf := setMode_same _ _ (setMode_mode _ _)

/-- **SafeFormat route.** `Sprint(v)` where `v.SafeFormat(w, _)` does `w.Print(args...)`: the value is
dispatched to its SafeFormat method, whose nested printer runs the very `doPrintLoop` that
`Sprint(args...)` runs, on the same printer state, with seven units less fuel; its result is handed
back with the mode restored. (Fuel is a proof device: Go has no such bound.) -/
theorem safeformat_print_route (env : Env) (n : Nat) (ms : Methods) (ty : List Byte) (ret : Nat) (under : Val) (args : Vals)
    (hsf : ms.safeFormatter = true) (np' : PP)
    (h : doPrintLoop env n p1 args.toList 0 false = .ok np') :
    doPrint env (n + 1) newPP args.toList = .ok np' ∧
    doPrint env (n + 8) newPP [.meth ms ty false false false ret (.print args .done) under] =
      .ok { p1 with buf := np'.buf.setMode .safeEsc } := by
  have hov : newPP.override ≠ .ovUnsafe := by decide
  constructor
  · rw [doPrint]; simp only [hov, if_true, ne_eq, not_false_eq_true]; exact h
  · rw [doPrint]
    simp only [hov, if_true, ne_eq, not_false_eq_true]
    change doPrintLoop env (n + 7) p1 _ 0 false = _
    rw [doPrintLoop]
    simp only [gt_iff_lt, Nat.lt_irrefl, false_and, if_false]
    rw [printArg]
    simp only [isRegistered, isSafeValue, Bool.false_eq_true, if_false]
    rw [printArgBody]
    simp only [show ¬ (118 = 84) by decide, show ¬ (118 = 112) by decide, if_false]
    rw [handleMethods]
    have he : p1.erroring = false := rfl
    simp only [he, Bool.false_eq_true, if_false, show ¬ (118 = 119) by decide]
    rw [methDispatch]
    have ho1 : p1.override ≠ .ovUnsafe := by decide
    simp only [ho1, hsf, ne_eq, not_false_eq_true, and_self, if_true, Bool.false_eq_true, if_false]
    rw [runScript]
    simp only [p1_np]
    rw [doPrint]
    simp only [ho1, if_true, ne_eq, not_false_eq_true, p1_setSafe]
    have e : ({ p1 with buf := p1.buf } : PP) = p1 := rfl
    rw [e, h]
    simp only
    rw [runScript, catchPanic]
    simp only [Res.bind]
    rw [doPrintLoop]
    have hm : p1.buf.mode = .safeEsc := setMode_mode _ _
    simp [hm]
    all_goals first | rfl | (intros; simp_all)

/-- Hence the two routes print the same bytes whenever the inner loop returns. -/
theorem safeformat_route_same_output (env : Env) (he : EnvOk env) (n : Nat) (ms : Methods) (ty : List Byte) (ret : Nat)
    (under : Val) (args : Vals) (ha : ValsOk args) (hsf : ms.safeFormatter = true) (np' : PP)
    (h : doPrintLoop env n p1 args.toList 0 false = .ok np') :
    (doPrint env (n + 8) newPP [.meth ms ty false false false ret (.print args .done) under]).output =
      (doPrint env (n + 1) newPP args.toList).output := by
  have ⟨h1, h2⟩ := safeformat_print_route env n ms ty ret under args hsf np' h
  have hp1 : Pre p1 := ⟨inv_setMode newPP.buf .safeEsc inv_init, by simp [p1, setMode_mode]⟩
  have g := ((spec_all env he n).doPrintLoop p1 args.toList 0 false hp1 (listOk_of_valsOk _ ha)).1 np' h
  have hm : np'.buf.mode = .safeEsc := by rw [g.2.1]; exact setMode_mode _ _
  rw [h1, h2]
  simp only [Res.output]
  rw [setMode_same _ _ hm]

/-- **SafeFormat route, at any common fuel**: once the fuel suffices for the route through the
SafeFormat method, `Sprint(v)` and `Sprint(args...)` print the same. -/
theorem safeformat_route (env : Env) (he : EnvOk env) (n : Nat) (ms : Methods) (ty : List Byte) (ret : Nat)
    (under : Val) (args : Vals) (ha : ValsOk args) (hsf : ms.safeFormatter = true) (np' : PP)
    (h : doPrintLoop env n p1 args.toList 0 false = .ok np') (N : Nat) (hN : n + 8 ≤ N) :
    (doPrint env N newPP [.meth ms ty false false false ret (.print args .done) under]).output =
      (doPrint env N newPP args.toList).output := by
  have ⟨h1, h2⟩ := safeformat_print_route env n ms ty ret under args hsf np' h
  have e := safeformat_route_same_output env he n ms ty ret under args ha hsf np' h
  obtain ⟨k, rfl⟩ : ∃ k, N = n + 8 + k := ⟨N - (n + 8), by omega⟩
  rw [doPrint_fuel env (n + 8) newPP _ _ h2 (by intro hh; cases hh) k]
  have : n + 8 + k = n + 1 + (7 + k) := by omega
  rw [this, doPrint_fuel env (n + 1) newPP _ _ h1 (by intro hh; cases hh) (7 + k)]
  rw [h1, h2] at e
  exact e

/-- `Sprint`'s result does not depend on the model's default fuel: any fuel that yields a result
yields this one. -/
theorem sprint_fuel_irrelevant (env : Env) (args : List Val) (n : Nat) (hn : n ≤ defaultFuel) (r : Res)
    (h : doPrint env n newPP args = r) (hr : r ≠ .fuel) : sprint env args = r := by
  obtain ⟨k, hk⟩ : ∃ k, defaultFuel = n + k := ⟨defaultFuel - n, by omega⟩
  unfold sprint; rw [hk]
  exact doPrint_fuel env n newPP args r h hr k

theorem sprintf_fuel_irrelevant (env : Env) (f : List Byte) (args : List Val) (n : Nat) (hn : n ≤ defaultFuel) (r : Res)
    (h : doPrintf env n newPP f args = r) (hr : r ≠ .fuel) : sprintf env f args = r := by
  obtain ⟨k, hk⟩ : ∃ k, defaultFuel = n + k := ⟨defaultFuel - n, by omega⟩
  unfold sprintf; rw [hk]
  exact doPrintf_fuel env n newPP f args r h hr k

/-- The nested-printer route needs no side condition on clean inputs. -/
theorem nested_print_route_clean (env : Env) (he : EnvOk env) (hc : EnvCl env) (n : Nat) (args : Vals) (ha : ValsOk args)
    (hk : ValsCl args) (q : PP) (h : doPrint env (n + 1) newPP args.toList = .ok q) :
    ∃ q', runScript env (n + 2) newPP (.print args .done) = .ok q' ∧ q'.buf.redactableBytes = q.buf.redactableBytes :=
  nested_print_route env he n args ha q h (doPrint_output_clean env hc (n + 1) _ (listCl_of_valsCl _ hk) q h).2

theorem nested_printf_route_clean (env : Env) (he : EnvOk env) (hc : EnvCl env) (n : Nat) (f : List Byte) (hf : Utf8 f)
    (args : Vals) (ha : ValsOk args) (hk : ValsCl args) (q : PP) (h : doPrintf env (n + 1) newPP f args.toList = .ok q) :
    ∃ q', runScript env (n + 2) newPP (.printf f args .done) = .ok q' ∧ q'.buf.redactableBytes = q.buf.redactableBytes :=
  nested_printf_route env he n f args ha q h
    (doPrintf_output_clean env hc (n + 1) newPP ci_newPP f hf _ (listCl_of_valsCl _ hk) q h).2

end Redact
