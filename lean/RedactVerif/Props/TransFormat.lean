import RedactVerif.Generated.Trans
import RedactVerif.Model.Format
/-
The tie for `MakeFormat` (C14) by translation: `Generated/Trans.lean` holds the function as the
translator reads it off /repo's `internal/fmtforward/make_format.go` on every run; here it is
proved to compute, on every `fmt.State`, what the hand-written `makeFormat` computes — the
function `Props/C14.lean`'s round-trip theorem is about.
-/
namespace Redact

/-- The `fmt.State` that reports the directive state `st`. -/
def stateOf (st : FState) : GoFmtState where
  Flag c := if c = 43 then st.plus else if c = 45 then st.minus else if c = 35 then st.sharp
    else if c = 32 then st.space else if c = 48 then st.zero else false
  Width := match st.wid with | some w => ((w : Int), true) | none => (0, false)
  Precision := match st.prec with | some p => ((p : Int), true) | none => (0, false)

theorem goItoa_nat (n : Nat) : goItoa (n : Int) = itoa n := by
  unfold goItoa
  have : ¬ ((n : Int) < 0) := by omega
  simp [this]

/-- **The translated `MakeFormat` is the model's `makeFormat`**, for every directive state. -/
theorem makeFormat_translated (st : FState) :
    Trans.MakeFormat (stateOf st) (st.verb : Int) = makeFormat st := by
  obtain ⟨plus, minus, sharp, space, zero, wid, prec, verb⟩ := st
  have h118 : ((verb : Int) == (118 : Int)) = decide (verb = 118) := by
    by_cases h : verb = 118 <;> simp [h]; omega
  have h115 : ((verb : Int) == (115 : Int)) = decide (verb = 115) := by
    by_cases h : verb = 115 <;> simp [h]; omega
  have h100 : ((verb : Int) == (100 : Int)) = decide (verb = 100) := by
    by_cases h : verb = 100 <;> simp [h]; omega
  cases plus <;> cases minus <;> cases sharp <;> cases space <;> cases zero <;> cases wid <;> cases prec <;>
    simp [Trans.MakeFormat, makeFormat, noFlags, stateOf, Id.run, goItoa_nat, goEncodeRune, runeBytes, h118, h115, h100] <;>
    (repeat' split) <;> first | rfl | (simp_all; done) | (simp_all; rfl)

/-- The public `redact.MakeFormat` (api.go) delegates to it. -/
theorem api_makeFormat (st : FState) : Trans.API_MakeFormat (stateOf st) (st.verb : Int) = makeFormat st := by
  rw [← makeFormat_translated]; rfl

end Redact
