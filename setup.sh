#!/bin/sh
# Build the framework from files on disk only (offline).
set -e
cd "$(dirname "$0")"
export GOFLAGS=-mod=mod GOPROXY=off GOSUMDB=off GOTOOLCHAIN=local
mkdir -p .work evidence replays
# regenerate the facts and translations from /repo's working tree before building the proofs against them
if [ -d extract ]; then (cd extract && go build -tags verif -o ../.work/extract.setup . && ../.work/extract.setup /repo ../lean/RedactVerif/Generated >/dev/null; rm -f ../.work/extract.setup); fi
(cd lean && lake build)
(cd harness && go build -tags verif -o ../.work/harness.setup . && rm -f ../.work/harness.setup)
if [ -d extract ]; then (cd extract && go build -tags verif -o ../.work/extract.setup . && rm -f ../.work/extract.setup); fi
echo setup-ok
