#!/bin/sh
# Build the framework from files on disk only (offline).
set -e
cd "$(dirname "$0")"
export GOFLAGS=-mod=mod GOPROXY=off GOSUMDB=off GOTOOLCHAIN=local
mkdir -p .work evidence replays
(cd lean && lake build)
(cd harness && go build -tags verif -o ../.work/harness.setup . && rm -f ../.work/harness.setup)
if [ -d extract ]; then (cd extract && go build -tags verif -o ../.work/extract.setup . && rm -f ../.work/extract.setup); fi
echo setup-ok
