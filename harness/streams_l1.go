package main

import (
	"strconv"
	"bytes"
	"fmt"
	origfmt "fmt"
	"io"
	"strings"
	"unicode/utf8"

	"github.com/cockroachdb/redact"
	"github.com/cockroachdb/redact/interfaces"
	"github.com/cockroachdb/redact/internal/buffer"
)

// bop is one operation of the buffer / SafeWriter alphabets.
type bop struct {
	tag string
	p   []byte
	n   int
	// for pr: arguments of the inner Print call
	args []interface{}
}

func (o bop) tok() string {
	switch o.tag {
	case "m", "g":
		return fmt.Sprintf("%s:%d", o.tag, o.n)
	case "w", "ss", "sn", "us", "pr":
		return o.tag + ":" + hx(o.p)
	case "b", "sb", "ub":
		return fmt.Sprintf("%s:%02x", o.tag, byte(o.n))
	case "r", "sr", "ur":
		return fmt.Sprintf("%s:%d", o.tag, o.n)
	}
	return o.tag
}

func isAcc(t string) bool { return t == "len" || t == "str" || t == "rs" || t == "mode" }

type stateFn func() (int, bool, int, int) // validUntil, markerOpen, rawLen, mode

func stStr(f stateFn) string {
	vu, mo, l, md := f()
	return fmt.Sprintf("S%d/%s/%d/%d", vu, b01(mo), md, l)
}

// bufLike is what ManualBuffer and StringBuilder share.
type bufLike interface {
	Len() int
	String() string
	RedactableString() redact.RedactableString
	TakeRedactableString() redact.RedactableString
	Reset()
	GetMode() buffer.OutputMode
	VerifState() (int, bool, int, int)
}

// held: a string handed out by an accessor, and what it read as when it was handed out.
type held struct {
	s    string
	then string
}

// heldIntact: "" if every string handed out earlier still reads as it did (C13: a string
// obtained earlier is never modified by later writes), else a description.
func heldIntact(h []held) string {
	for i, x := range h {
		if hx([]byte(x.s)) != x.then {
			return fmt.Sprintf(" MUTATED:result#%d read %s when returned, reads %s now", i, x.then, hx([]byte(x.s)))
		}
	}
	return ""
}

func commonOp(b bufLike, o bop, h *[]held) (res string, ok bool) {
	keep := func(s string) string {
		*h = append(*h, held{s, hx([]byte(s))})
		return s
	}
	switch o.tag {
	case "reset":
		b.Reset()
	case "take":
		res = "=" + hx([]byte(keep(string(b.TakeRedactableString()))))
	case "len":
		res = fmt.Sprintf("=%d", b.Len())
	case "str":
		res = "=" + hx([]byte(keep(b.String())))
	case "rs":
		res = "=" + hx([]byte(keep(string(b.RedactableString()))))
	case "mode":
		res = fmt.Sprintf("=%d", int(b.GetMode()))
	default:
		return "", false
	}
	return res, true
}

func execBuf(ops []bop) (string, []byte) {
	var b redact.ManualBuffer
	var hs []held
	st := func() (int, bool, int, int) {
		vu, mo, l, _ := b.VerifState()
		return vu, mo, l, int(b.GetMode())
	}
	var out []string
	for _, o := range ops {
		res := ""
		switch o.tag {
		case "m":
			b.SetMode(buffer.OutputMode(o.n))
		case "w":
			if o.n == 1 {
				b.WriteString(string(o.p))
			} else {
				b.Write(cp(o.p))
			}
		case "b":
			b.WriteByte(byte(o.n))
		case "r":
			b.WriteRune(rune(o.n))
		case "g":
			b.Grow(o.n)
		default:
			r, ok := commonOp(&b, o, &hs)
			if !ok {
				panic("execBuf: bad op " + o.tag)
			}
			res = r
		}
		out = append(out, stStr(st)+res)
	}
	fin := []byte(b.RedactableString())
	out = append(out, "out:"+hx(fin)+heldIntact(hs))
	return strings.Join(out, " "), fin
}

func writerOp(w redact.SafeWriter, o bop) bool {
	switch o.tag {
	case "ss":
		if o.n == 1 {
			w.(interface{ SafeBytes(interfaces.SafeBytes) }).SafeBytes(interfaces.SafeBytes(cp(o.p)))
		} else {
			w.SafeString(redact.SafeString(o.p))
		}
	case "sb":
		w.(interface{ SafeByte(interfaces.SafeByte) }).SafeByte(interfaces.SafeByte(o.n))
	case "sr":
		w.SafeRune(redact.SafeRune(o.n))
	case "sn":
		// payload is the rendering of the number
		switch o.n {
		case 1:
			v, _ := strconv.ParseUint(string(o.p), 10, 64)
			w.SafeUint(redact.SafeUint(v))
		case 2:
			v, _ := strconv.ParseFloat(string(o.p), 64)
			w.SafeFloat(redact.SafeFloat(v))
		default:
			v, _ := strconv.ParseInt(string(o.p), 10, 64)
			w.SafeInt(redact.SafeInt(v))
		}
	case "us":
		switch o.n {
		case 1:
			w.UnsafeBytes(cp(o.p))
		case 2: // the plain io.Writer side
			w.(io.Writer).Write(cp(o.p))
		case 3: // the io.StringWriter fast path
			io.WriteString(w.(io.Writer), string(o.p))
		default:
			w.UnsafeString(string(o.p))
		}
	case "ub":
		w.UnsafeByte(byte(o.n))
	case "ur":
		w.UnsafeRune(rune(o.n))
	case "pr":
		w.Print(o.args...)
	default:
		return false
	}
	return true
}

func execBld(ops []bop) (string, []byte) {
	var b redact.StringBuilder
	var hs []held
	st := func() (int, bool, int, int) {
		vu, mo, l, _ := b.VerifState()
		return vu, mo, l, int(b.GetMode())
	}
	var out []string
	for _, o := range ops {
		res := ""
		if !writerOp(&b, o) {
			r, ok := commonOp(&b, o, &hs)
			if !ok {
				panic("execBld: bad op " + o.tag)
			}
			res = r
		}
		out = append(out, stStr(st)+res)
	}
	fin := []byte(b.RedactableString())
	out = append(out, "out:"+hx(fin)+heldIntact(hs))
	return strings.Join(out, " "), fin
}

type ppState interface {
	VerifState() (int, bool, int, int, int)
}

type sfRunner struct {
	ops []bop
	out *[]string
}

func runAdp(w redact.SafeWriter, ops []bop, out *[]string) {
	ps := w.(ppState)
	for _, o := range ops {
		if !writerOp(w, o) {
			panic("runAdp: bad op " + o.tag)
		}
		vu, mo, l, md, _ := ps.VerifState()
		*out = append(*out, fmt.Sprintf("S%d/%s/%d/%d", vu, b01(mo), md, l))
	}
}

func (s sfRunner) SafeFormat(w redact.SafePrinter, _ rune) { runAdp(w, s.ops, s.out) }

type fmtRunner struct {
	ops []bop
	out *[]string
}

func (s fmtRunner) Format(st origfmt.State, _ rune) { runAdp(st.(redact.SafePrinter), s.ops, s.out) }

// execAdp runs SafeWriter calls on the printer's adapter in one of four
// contexts: n0 = Sprintfn, n1 = SafeFormat under Sprint, s1 = under Safe(),
// u0 = a Formatter under Unsafe() that discovers the SafePrinter.
func execAdp(ctx string, ops []bop) (string, []byte) {
	var out []string
	var fin redact.RedactableString
	switch ctx {
	case "n 0":
		fin = redact.Sprintfn(func(w redact.SafePrinter) { runAdp(w, ops, &out) })
	case "n 1":
		fin = redact.Sprint(sfRunner{ops, &out})
	case "s 1":
		fin = redact.Sprint(redact.Safe(sfRunner{ops, &out}))
	case "u 0":
		fin = redact.Sprint(redact.Unsafe(fmtRunner{ops, &out}))
	default:
		panic("bad ctx")
	}
	out = append(out, "out:"+hx([]byte(fin)))
	return strings.Join(out, " "), []byte(fin)
}

// ------------------------------------------------------------- alphabets

var payloads = [][]byte{
	nil, []byte("a"), []byte(" "), []byte("\n"), []byte("?"), []byte("‹"), []byte("›"), []byte("×"),
	{0xE2}, {0x80}, {0xB9}, {0xBA}, {0xE2, 0x80}, {0x80, 0xB9}, {0x80, 0xBA},
	[]byte("a\nb"), []byte("\n‹"), []byte("›\n"), {0xFF}, []byte("‹x›"), []byte("\n\n"), []byte("b\n"),
}
var payloadsSmall = [][]byte{nil, []byte("a"), []byte("\n"), []byte("‹"), []byte("›"), {0xE2}, {0xE2, 0x80}, {0x80, 0xB9}, []byte("a\nb"), []byte(" ")}
var byteVals = []int{0x61, 0x0A, 0xE2, 0x80, 0xB9, 0xBA, 0x3F, 0x20, 0xFF}
var runeVals = []int{0x61, 0x2039, 0x203A, 0xD800, -1, 0x110000, 0x0A, 0xD7, 0x80, 0xFFFD, 0x10FFFF}
var rawFrags = [][]byte{nil, []byte("a"), []byte("‹x›"), []byte("‹a›\n‹b›"), []byte("?"), []byte("‹×›")}

type printArgSet struct {
	args []interface{}
}

var printSets = []printArgSet{
	{[]interface{}{"x"}},
	{[]interface{}{redact.Safe("s"), 12}},
	{[]interface{}{}},
	{[]interface{}{"a\nb"}},
	{[]interface{}{redact.SafeString("‹")}},
	{[]interface{}{redact.RedactableString("‹q›z")}},
}

func mkPrint(i int) bop {
	ps := printSets[i%len(printSets)]
	r := redact.Sprint(ps.args...)
	return bop{tag: "pr", p: []byte(r), args: ps.args}
}

// opAlphabet builds the op list for a kind ("buf" or "wr" = SafeWriter calls;
// "bld" adds the accessor/reset/take ops of the embedded buffer).
func opAlphabet(kind string, small bool) []bop {
	pl := payloads
	bv, rv := byteVals, runeVals
	if small {
		pl = payloadsSmall
		bv = []int{0x61, 0x0A, 0xE2, 0xB9}
		rv = []int{0x61, 0x2039, 0xD800, 0x0A}
	}
	var a []bop
	switch kind {
	case "buf":
		for m := 0; m < 3; m++ {
			a = append(a, bop{tag: "m", n: m})
		}
		for _, p := range pl {
			a = append(a, bop{tag: "w", p: p})
		}
		for _, v := range bv {
			a = append(a, bop{tag: "b", n: v})
		}
		for _, v := range rv {
			a = append(a, bop{tag: "r", n: v})
		}
		a = append(a, bop{tag: "g", n: 5})
	default:
		for _, p := range pl {
			a = append(a, bop{tag: "ss", p: p}, bop{tag: "us", p: p})
		}
		// the equivalent entry points of the same calls: SafeBytes/UnsafeBytes, io.Writer, io.StringWriter
		a = append(a, bop{tag: "ss", p: []byte("a‹"), n: 1}, bop{tag: "us", p: []byte("b\n›"), n: 1},
			bop{tag: "us", p: []byte("w‹"), n: 2}, bop{tag: "us", p: []byte("s\n"), n: 3})
		for _, v := range bv {
			a = append(a, bop{tag: "sb", n: v}, bop{tag: "ub", n: v})
		}
		for _, v := range rv {
			a = append(a, bop{tag: "sr", n: v}, bop{tag: "ur", n: v})
		}
		a = append(a, bop{tag: "sn", p: []byte("-12")})
		if !small {
			// the numeric entry points at the ends of their ranges (the payload is what fmt prints for the number)
			a = append(a, bop{tag: "sn", p: []byte("18446744073709551615"), n: 1}, bop{tag: "sn", p: []byte("9223372036854775808"), n: 1},
				bop{tag: "sn", p: []byte("-9223372036854775808")}, bop{tag: "sn", p: []byte("1e+21"), n: 2}, bop{tag: "sn", p: []byte("-2.5"), n: 2},
				bop{tag: "sn", p: []byte("7"), n: 1})
		}
		if kind == "bld" {
			n := len(printSets)
			if small {
				n = 2
			}
			for i := 0; i < n; i++ {
				a = append(a, mkPrint(i))
			}
		}
	}
	if kind == "buf" || kind == "bld" {
		for _, t := range []string{"len", "str", "rs", "mode", "reset", "take"} {
			a = append(a, bop{tag: t})
		}
	}
	return a
}

func opsLine(kind string, ops []bop) string {
	var sb strings.Builder
	sb.WriteString(kind)
	for _, o := range ops {
		sb.WriteByte(' ')
		sb.WriteString(o.tok())
	}
	return sb.String()
}

// ------------------------------------------------------------- oracles

func validPayload(o bop) bool {
	switch o.tag {
	case "ss", "us", "w", "sn":
		return utf8.Valid(o.p)
	case "sb", "b":
		return o.n < 0x80
	case "ub":
		return true // unsafe single bytes >= 0x80 become '?': handled in the expectation
	case "sr", "ur", "r":
		return utf8.ValidRune(rune(o.n))
	}
	return true
}

// expectations for C09's two equalities on a SafeWriter call sequence
// (valid payloads only): the stripped text and the text outside envelopes.
func expectWriter(ops []bop) (strip, outside []byte, ok bool) {
	ok = true
	for _, o := range ops {
		if !validPayload(o) {
			ok = false
		}
		var pay []byte
		switch o.tag {
		case "ss", "us", "sn":
			pay = o.p
		case "sb":
			pay = []byte{byte(o.n)}
		case "ub":
			pay = []byte{byte(o.n)}
			if o.n >= 0x80 {
				pay = []byte("?")
			}
		case "sr", "ur":
			pay = []byte(string(rune(o.n)))
		case "pr":
			strip = append(strip, stripOnce(o.p)...)
			outside = append(outside, dropEnvs(o.p)...)
			continue
		default:
			continue
		}
		e := escQ(pay)
		strip = append(strip, e...)
		if o.tag[0] == 's' {
			outside = append(outside, e...)
		} else {
			outside = append(outside, onlyLF(pay)...)
		}
	}
	return
}

func mergeAdj(p []byte) []byte { return bytes.ReplaceAll(p, []byte("›‹"), nil) }

func outputOracles(fin []byte) []string {
	var orc []string
	if e := wflErr(fin); e != "" {
		orc = append(orc, wfTag(e)+"output not well-formed/line-safe: "+e)
	} else if e := perLineErr(fin, realRedact, realStrip); e != "" {
		orc = append(orc, "C03:"+e)
	}
	return orc
}

// writerOracles: oracles for a pure SafeWriter call sequence run on impl.
func writerOracles(ops []bop, fin []byte) []string {
	orc := outputOracles(fin)
	st, outside, ok := expectWriter(ops)
	if ok {
		if got := realStrip(fin); !bytes.Equal(got, st) {
			orc = append(orc, fmt.Sprintf("C09:strip(out)=%x want concat of escaped payloads %x", got, st))
		}
		if wflErr(fin) == "" {
			if got := dropEnvs(fin); !bytes.Equal(got, outside) {
				orc = append(orc, fmt.Sprintf("C09:text outside envelopes=%x want %x", got, outside))
			}
		}
	}
	return orc
}

func hasAcc(ops []bop) bool {
	for _, o := range ops {
		if isAcc(o.tag) {
			return true
		}
	}
	return false
}

func dropAcc(ops []bop) []bop {
	var r []bop
	for _, o := range ops {
		if !isAcc(o.tag) {
			r = append(r, o)
		}
	}
	return r
}

// nonAccResults extracts, from a canonical answer, the per-op entries of the
// non-accessor ops plus the final output.
func nonAccResults(ops []bop, ans string) string {
	parts := strings.Split(ans, " ")
	var r []string
	for i, o := range ops {
		if !isAcc(o.tag) && i < len(parts) {
			r = append(r, parts[i])
		}
	}
	r = append(r, parts[len(parts)-1])
	return strings.Join(r, " ")
}

// accessorOracles (C13): accessors do not influence anything; Len equals the
// length of RedactableString; after reset/take the object is as new.
func accessorOracles(kind string, ops []bop, ans string, exec func([]bop) (string, []byte)) []string {
	var orc []string
	if hasAcc(ops) {
		ans2, _ := exec(dropAcc(ops))
		if nonAccResults(ops, ans) != ans2 {
			orc = append(orc, "C13:removing the accessor calls changes later results: "+ans2)
		}
	}
	// Len vs RedactableString: check at the end of the sequence
	last := -1
	for i, o := range ops {
		if o.tag == "reset" || o.tag == "take" {
			last = i
		}
	}
	if last >= 0 {
		ansS, _ := exec(ops[last+1:])
		a := strings.Split(ans, " ")
		b := strings.Split(ansS, " ")
		if strings.Join(a[last+1:], " ") != strings.Join(b, " ") {
			orc = append(orc, "C13:after Reset/Take the object does not behave like a new one")
		}
	}
	return orc
}

func lenOracle(ops []bop, exec func([]bop) (string, []byte)) []string {
	ops2 := append(append([]bop(nil), ops...), bop{tag: "len"}, bop{tag: "rs"})
	ans, _ := exec(ops2)
	parts := strings.Split(ans, " ")
	n := len(parts)
	// parts[n-3] = len entry, parts[n-2] = rs entry
	le := parts[n-3][strings.Index(parts[n-3], "=")+1:]
	rs := parts[n-2][strings.Index(parts[n-2], "=")+1:]
	if le != fmt.Sprint(len(unhx(rs))) {
		return []string{"C13:Len() != len(RedactableString())"}
	}
	return nil
}

func rawOK(ops []bop) bool {
	mode := 0
	for _, o := range ops {
		switch o.tag {
		case "m":
			mode = o.n
		case "reset", "take":
			mode = 0
		case "w", "b", "r":
			if mode == 2 {
				if o.tag != "w" {
					return false
				}
				ok := false
				for _, f := range rawFrags {
					if bytes.Equal(f, o.p) {
						ok = true
					}
				}
				if !ok {
					return false
				}
			}
		}
	}
	return true
}

// ------------------------------------------------------------- cases

func bufCase(ops []bop, emit func(Case)) {
	var ans string
	var fin []byte
	pm := safely(func() { ans, fin = execBuf(ops) })
	var orc []string
	if pm != "" {
		ans = "PANIC"
		orc = append(orc, "C11:ManualBuffer call sequence panicked: "+pm)
	} else {
		if rawOK(ops) {
			orc = append(orc, outputOracles(fin)...)
		}
		orc = append(orc, accessorOracles("buf", ops, ans, execBuf)...)
		orc = append(orc, lenOracle(ops, execBuf)...)
	}
	emit(Case{Line: opsLine("buf", ops), Real: ans, Oracle: orc, Nontriv: hasMarker(fin), Kind: "buf:len" + fmt.Sprint(len(ops))})
}

func pureWriter(ops []bop) bool {
	for _, o := range ops {
		switch o.tag {
		case "ss", "sb", "sr", "sn", "us", "ub", "ur", "pr":
		default:
			return false
		}
	}
	return true
}

func noPrint(ops []bop) bool {
	for _, o := range ops {
		if o.tag == "pr" {
			return false
		}
	}
	return true
}

func bldCase(ops []bop, emit func(Case)) {
	var ans string
	var fin []byte
	pm := safely(func() { ans, fin = execBld(ops) })
	var orc []string
	if pm != "" {
		ans = "PANIC"
		orc = append(orc, "C11:StringBuilder call sequence panicked: "+pm)
	} else {
		if pureWriter(ops) {
			orc = append(orc, writerOracles(ops, fin)...)
		} else {
			orc = append(orc, outputOracles(fin)...)
		}
		orc = append(orc, accessorOracles("bld", ops, ans, execBld)...)
		orc = append(orc, lenOracle(ops, execBld)...)
	}
	emit(Case{Line: opsLine("bld", ops), Real: ans, Oracle: orc, Nontriv: hasMarker(fin), Kind: "bld:len" + fmt.Sprint(len(ops))})
	if pm == "" && pureWriter(ops) && noPrint(ops) {
		// the other implementations on the same call sequence
		var outs [][]byte
		outs = append(outs, fin)
		for _, ctx := range []string{"n 0", "n 1", "s 1", "u 0"} {
			var a string
			var f []byte
			p2 := safely(func() { a, f = execAdp(ctx, ops) })
			var o2 []string
			if p2 != "" {
				a = "PANIC"
				o2 = append(o2, "C11:SafePrinter call sequence panicked: "+p2)
			} else {
				switch ctx {
				case "n 0", "n 1":
					o2 = append(o2, writerOracles(ops, f)...)
					if _, _, valid := expectWriter(ops); valid && !bytes.Equal(mergeAdj(f), mergeAdj(fin)) {
						o2 = append(o2, fmt.Sprintf("C09:StringBuilder and SafePrinter disagree beyond envelope merging: %x vs %x", fin, f))
					}
				case "s 1":
					o2 = append(o2, outputOracles(f)...)
					if hasMarker(f) {
						o2 = append(o2, "C06:SafeWriter calls under Safe() produced an envelope")
					}
				case "u 0":
					o2 = append(o2, outputOracles(f)...)
					if len(bytes.Trim(dropEnvs(f), "\n")) != 0 {
						o2 = append(o2, fmt.Sprintf("C06:SafeWriter calls under Unsafe() left text outside envelopes: %x", f))
					}
				}
			}
			emit(Case{Line: opsLine("adp "+ctx, ops), Real: a, Oracle: o2, Nontriv: hasMarker(f), Kind: "adp:" + ctx})
			outs = append(outs, f)
		}
		// ManualBuffer driven with explicit modes
		var mops []bop
		for _, o := range ops {
			m := 1
			if o.tag[0] == 'u' {
				m = 0
			}
			mops = append(mops, bop{tag: "m", n: m})
			switch o.tag {
			case "ss", "us", "sn":
				mops = append(mops, bop{tag: "w", p: o.p})
			case "sb", "ub":
				mops = append(mops, bop{tag: "b", n: o.n})
			case "sr", "ur":
				mops = append(mops, bop{tag: "r", n: o.n})
			}
		}
		_, mf := execBuf(mops)
		if _, _, valid := expectWriter(ops); valid && !bytes.Equal(mergeAdj(mf), mergeAdj(fin)) {
			emit(Case{Line: "", Real: opsLine("bld", ops), Oracle: []string{fmt.Sprintf("C09:StringBuilder and ManualBuffer disagree beyond envelope merging: %x vs %x", fin, mf)}, Kind: "manual-agree"})
		}
	}
}

// enumOps enumerates all sequences of length exactly n over alpha.
func enumOps(alpha []bop, n int, shard, nshards int, f func([]bop)) {
	total := pow(len(alpha), n)
	for i := shard; i < total; i += nshards {
		ops := make([]bop, n)
		k := i
		for j := n - 1; j >= 0; j-- {
			ops[j] = alpha[k%len(alpha)]
			k /= len(alpha)
		}
		f(ops)
	}
}

func randOps(r *Rng, alpha []bop, maxLen int) []bop {
	n := 1 + r.Intn(maxLen)
	ops := make([]bop, n)
	for i := range ops {
		ops[i] = alpha[r.Intn(len(alpha))]
		if r.Chance(15) && (ops[i].tag == "w" || ops[i].tag == "ss" || ops[i].tag == "us") {
			ops[i].p = randBytes(r, alphaM, 12)
		}
		if r.Chance(3) && (ops[i].tag == "w" || ops[i].tag == "ss" || ops[i].tag == "us") {
			// a long payload, of a length on either side of the sizes at which bulk paths and
			// storage growth usually switch (powers of two): random symbols at both ends, filler between
			L := []int{63, 64, 65, 127, 128, 255, 256, 257, 300, 511, 512, 513, 1023, 1024, 2048, 4096}[r.Intn(16)]
			head, tail := randBytes(r, alphaM, 6), randBytes(r, alphaM, 4)
			fill := L - len(head) - len(tail)
			if fill < 0 {
				fill = 0
			}
			p := append(append(append([]byte{}, head...), bytes.Repeat([]byte("y"), fill)...), tail...)
			ops[i].p = p
		}
		if ops[i].tag == "us" || ops[i].tag == "ss" {
			// which of the equivalent entry points is used (string / bytes / io.Writer / io.StringWriter)
			ops[i].n = r.Intn(4)
			if ops[i].tag == "ss" {
				ops[i].n %= 2
			}
		}
	}
	return ops
}

func streamBuffer(rep *Report, tier string, seed uint64) {
	bufA, bldA := opAlphabet("buf", false), opAlphabet("bld", false)
	bufS, bldS := opAlphabet("buf", true), opAlphabet("bld", true)
	nrand := 20000
	if tier == "thorough" {
		nrand = 600000
	}
	RunStream(rep, "B-buf-len<=2", true, fmt.Sprintf("all ManualBuffer op sequences of length <=2 over %d ops", len(bufA)), true, 16,
		func(sh, n int, emit func(Case)) {
			for l := 0; l <= 2; l++ {
				enumOps(bufA, l, sh, n, func(ops []bop) { bufCase(ops, emit) })
			}
		})
	RunStream(rep, "B-bld-len<=2", true, fmt.Sprintf("all StringBuilder call sequences of length <=2 over %d calls, each also on the SafePrinter in 4 contexts and on ManualBuffer", len(bldA)), true, 16,
		func(sh, n int, emit func(Case)) {
			for l := 0; l <= 2; l++ {
				enumOps(bldA, l, sh, n, func(ops []bop) { bldCase(ops, emit) })
			}
		})
	a3buf, a3bld := bufS, bldS
	if tier == "thorough" {
		a3buf, a3bld = bufA, bldA
	}
	RunStream(rep, "B-buf-len3", true, fmt.Sprintf("all ManualBuffer op sequences of length 3 over %d ops", len(a3buf)), true, 16,
		func(sh, n int, emit func(Case)) {
			enumOps(a3buf, 3, sh, n, func(ops []bop) { bufCase(ops, emit) })
		})
	RunStream(rep, "B-bld-len3", true, fmt.Sprintf("all StringBuilder call sequences of length 3 over %d calls (+ SafePrinter contexts, ManualBuffer)", len(a3bld)), true, 16,
		func(sh, n int, emit func(Case)) {
			enumOps(a3bld, 3, sh, n, func(ops []bop) { bldCase(ops, emit) })
		})
	if tier == "thorough" {
		RunStream(rep, "B-len4-reduced", true, fmt.Sprintf("all sequences of length 4 over the reduced alphabets (%d / %d ops)", len(bufS), len(bldS)), true, 16,
			func(sh, n int, emit func(Case)) {
				enumOps(bufS, 4, sh, n, func(ops []bop) { bufCase(ops, emit) })
				enumOps(bldS, 4, sh, n, func(ops []bop) { bldCase(ops, emit) })
			})
	}
	RunStream(rep, "B-random", false, "random sequences of length <=40, 15% random payloads", true, 16,
		func(sh, n int, emit func(Case)) {
			r := NewRng(seed*1000 + 31 + uint64(sh))
			for i := 0; i < nrand/n; i++ {
				if r.Bool() {
					bufCase(randOps(r, bufA, 40), emit)
				} else {
					bldCase(randOps(r, bldA, 40), emit)
				}
			}
		})
}

// streamSplits: C10's last clause on the real buffer. A payload is written in one
// Write and in 2-4 pieces cut at arbitrary byte positions (inside markers and
// multi-byte runes included), after a filler that places the cut on either side
// of the storage growth steps; the finished redactable must not depend on the cut.
func streamSplits(rep *Report, tier string, seed uint64) {
	n := 30000
	if tier == "thorough" {
		n = 600000
	}
	alpha := append(append([][]byte{}, alphaE...), []byte("‹"), []byte("›"), []byte("é"), []byte("世"))
	RunStream(rep, "E-splits", false, "payloads of <=14 symbols after 0-300 filler bytes, written whole and in 2-4 pieces, unsafe and safe mode, ManualBuffer and StringBuilder", true, 16,
		func(sh, ns int, emit func(Case)) {
			r := NewRng(seed*1000 + 77 + uint64(sh))
			for i := 0; i < n/ns; i++ {
				var fill int
				switch r.Intn(4) {
				case 0:
					fill = r.Intn(12)
				case 1:
					fill = 50 + r.Intn(20)
				case 2:
					fill = 110 + r.Intn(30)
				default:
					fill = r.Intn(300)
				}
				pay := randBytes(r, alpha, 14)
				total := append(bytes.Repeat([]byte("a"), fill), pay...)
				total = append(total, randBytes(r, alpha, 3)...)
				mode := r.Intn(2)
				// cut points, biased into the payload
				k := 1 + r.Intn(3)
				cuts := map[int]bool{}
				for j := 0; j < k; j++ {
					c := r.Intn(len(total) + 1)
					if len(pay) > 0 && r.Chance(75) {
						c = fill + r.Intn(len(pay)+1)
					}
					cuts[c] = true
				}
				whole := []bop{{tag: "m", n: mode}, {tag: "w", p: total, n: r.Intn(2)}}
				split := []bop{{tag: "m", n: mode}}
				last := 0
				for c := 0; c <= len(total); c++ {
					if cuts[c] || c == len(total) {
						split = append(split, bop{tag: "w", p: total[last:c], n: r.Intn(2)})
						if r.Chance(40) {
							// a read between the pieces (and before the final one) changes nothing
							split = append(split, bop{tag: []string{"rs", "len", "str"}[r.Intn(3)]})
						}
						last = c
					}
				}
				var aw, as string
				var fw, fs []byte
				pm := safely(func() { aw, fw = execBuf(whole); as, fs = execBuf(split) })
				var orc []string
				if pm != "" {
					orc = append(orc, "C11:ManualBuffer write sequence panicked: "+pm)
				} else if !bytes.Equal(fw, fs) {
					orc = append(orc, fmt.Sprintf("C10:result depends on how the payload was split: whole %q, pieces %q (%s)", fw, fs, opsLine("buf", split)))
				}
				// the same through a StringBuilder (UnsafeString / SafeString pieces)
				tag := "us"
				if mode == 1 {
					tag = "ss"
				}
				var bw, bs []bop
				bw = append(bw, bop{tag: tag, p: total})
				for _, o := range split[1:] {
					if o.tag != "w" {
						bs = append(bs, o) // an accessor between the pieces
						continue
					}
					bs = append(bs, bop{tag: tag, p: o.p, n: o.n})
				}
				var gw, gs []byte
				pm2 := safely(func() { _, gw = execBld(bw); _, gs = execBld(bs) })
				if pm2 != "" {
					orc = append(orc, "C11:StringBuilder write sequence panicked: "+pm2)
				} else if !bytes.Equal(gw, gs) {
					orc = append(orc, fmt.Sprintf("C10:StringBuilder result depends on how the payload was split: whole %q, pieces %q", gw, gs))
				}
				// escaping does not depend on what the previous call left behind: after an unsafe call whose envelope is
				// elided (empty payload, payload ending in a line feed), after a mode switch, or after nothing at all, a safe
				// payload is escaped the same — the text outside envelopes is the line feeds of the first call followed by
				// EscapeMarkers(payload), with nothing of the payload taken for already escaped
				if i%4 == 0 {
					p0 := [][]byte{nil, []byte("\n"), []byte("a\n"), []byte("a"), []byte("‹\n")}[r.Intn(5)]
					short := append(append([]byte(nil), pay...), 'z')
					var got []byte
					if pm3 := safely(func() { _, got = execBld([]bop{{tag: "us", p: p0}, {tag: "ss", p: short}}) }); pm3 != "" {
						orc = append(orc, "C11:StringBuilder write sequence panicked: "+pm3)
					} else {
						want := append(bytes.Repeat([]byte("\n"), bytes.Count(p0, []byte("\n"))), redact.EscapeMarkers(short)...)
						if utf8.Valid(short) && !bytes.Equal(dropEnvs(got), want) {
							orc = append(orc, fmt.Sprintf("C10:a safe payload is escaped differently after UnsafeString(%q): outside envelopes %q, want %q (whole output %q)", p0, dropEnvs(got), want, got))
						}
					}
				}
				emit(Case{Line: opsLine("buf", whole), Real: aw, Nontriv: hasMarker(pay), Kind: "split:whole"})
				emit(Case{Line: opsLine("buf", split), Real: as, Oracle: orc, Nontriv: hasMarker(pay), Kind: fmt.Sprintf("split:%dpieces", len(split)-1)})
			}
		})
}
