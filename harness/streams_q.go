package main

import (
	"bytes"
	"errors"
	"fmt"
	"io"
	"math"
	"os"
	"os/exec"
	"reflect"
	"strings"
	"sync"

	"github.com/cockroachdb/redact"
	"github.com/cockroachdb/redact/internal/rfmt"
)

func resetRegistry() { rfmt.VerifResetSafeTypeRegistry() }

// --------------------------------------------------------------- C14

type probeState struct {
	flags   [5]bool
	w, p    int
	wok, pk bool
	verb    rune
	justV   bool
	format  string
}

func (s probeState) key() string {
	return fmt.Sprintf("%v|%d,%v|%d,%v|%c", s.flags, s.w, s.wok, s.p, s.pk, s.verb)
}

type probe struct{ rec *[]probeState }

func (p probe) Format(st fmt.State, verb rune) {
	var s probeState
	for i, c := range "+-# 0" {
		s.flags[i] = st.Flag(int(c))
	}
	s.w, s.wok = st.Width()
	s.p, s.pk = st.Precision()
	s.verb = verb
	s.justV, s.format = redact.MakeFormat(st, verb)
	*p.rec = append(*p.rec, s)
}

type ptrFmtr struct{ s string }

func (p *ptrFmtr) Format(st fmt.State, verb rune) { fmt.Fprintf(st, "PF<%s|%c>", p.s, verb) }

func streamForward(rep *Report, tier string, seed uint64) {
	RunStream(rep, "F-makeformat", true, "32 flag subsets x widths {absent,0,1,7,12,1000,*} x precisions {absent,0,1,5,*} x 52 ASCII letters + 9 other ASCII characters + 3 multi-byte verbs, under fmt's and redact's fmt.State; round-trip through MakeFormat; Safe(x)/Unsafe(x) vs x under fmt for 12 basic kinds", true, 1,
		func(sh, ns int, emit func(Case)) {
			var verbs []string
			for c := 'a'; c <= 'z'; c++ {
				verbs = append(verbs, string(c))
			}
			for c := 'A'; c <= 'Z'; c++ {
				verbs = append(verbs, string(c))
			}
			verbs = append(verbs, "世", "é", "‹")
			// ASCII characters that are not letters are verbs too ("any verb"): fmt reports them as bad verbs *through* the
			// Formatter when the operand has one
			verbs = append(verbs, "!", "_", "~", "@", "?", "]", "$", "}", "&")
			widths := []string{"", "0", "1", "7", "12", "1000", "*", "*0", "*-"}
			precs := []string{"", ".0", ".1", ".5", ".*"}
			operands := []interface{}{true, 42, -7, uint8(200), 3.25, complex(1, -2), "str", []byte("by"), []byte{}, []byte(nil), 'x', errors.New("e"), strg{"s"}, nil, []int{1, 2}, map[string]int{"a": 1}, struct{ A int }{3}, &intCell, [2]byte{1, 2}, MyStr("ms"),
				// operands with methods of their own, live and as typed nil pointers (fmt prints <nil> for a nil receiver whose
				// method panics — only if the operand it dispatched on is that nil pointer)
				errFmtr{"ef"}, &ptrFmtr{"pf"}, (*ptrFmtr)(nil), (*pstrg)(nil), &pstrg{"ps"}}
			for m := 0; m < 32; m++ {
				fl := ""
				for i, f := range "+-# 0" {
					if m&(1<<uint(i)) != 0 {
						fl += string(f)
					}
				}
				for _, w := range widths {
					for _, p := range precs {
						for vi, vb := range verbs {
							wd := w
							var star []interface{}
							if w == "*" {
								star = append(star, 9)
							}
							if w == "*0" {
								// an explicit width of 0 can only be given through '*'
								wd = "*"
								star = append(star, 0)
							}
							if w == "*-" {
								// a negative '*' width: left-justify, and the '0' flag is dropped
								wd = "*"
								star = append(star, -7)
							}
							d := "%" + fl + wd + p + vb
							if p == ".*" {
								star = append(star, 2)
							}
							var orc []string
							// (1) round trip under both States
							for _, impl := range []string{"fmt", "redact"} {
								var rec []probeState
								args := append(append([]interface{}{}, star...), probe{&rec})
								if impl == "fmt" {
									_ = fmt.Sprintf(d, args...)
								} else {
									_ = redact.Sprintf(d, args...)
								}
								if vb == "T" || vb == "p" || vb == "w" {
									continue
								}
								if len(rec) != 1 {
									orc = append(orc, fmt.Sprintf("C14:%s: probe Formatter not called exactly once for %q", impl, d))
									continue
								}
								s1 := rec[0]
								var rec2 []probeState
								if impl == "fmt" {
									_ = fmt.Sprintf(s1.format, probe{&rec2})
								} else {
									_ = redact.Sprintf(s1.format, probe{&rec2})
								}
								if len(rec2) != 1 || rec2[0].key() != s1.key() {
									site := ""
									if s1.wok && s1.w == 0 {
										site = "D9:width-zero@@"
									}
									orc = append(orc, fmt.Sprintf("%sC14:%s: MakeFormat(%q) = %q does not re-create the directive: %v vs %v", site, impl, d, s1.format, s1.key(), rec2))
								}
								if wd != "*" && p != ".*" {
									// the model's directive parser against the real one
									rule := "0"
									if impl == "redact" {
										rule = "1"
									}
									fb := ""
									for i := range s1.flags {
										fb += b01(s1.flags[i])
									}
									emit(Case{Line: "pd " + rule + " " + hx([]byte(d)), Real: fmt.Sprintf("%s %s %s %d", fb, wpTok(s1.w, s1.wok), wpTok(s1.p, s1.pk), s1.verb), Nontriv: true, Kind: "pd:" + impl})
								}
								if impl == "redact" {
									// (1c) the state is the same after the method has used its SafePrinter
									var rec3 []probeState
									k := (vi + m) % 11
									_ = redact.Sprintf(d, append(append([]interface{}{}, star...), probeSF{&rec3, k})...)
									if len(rec3) != 1 || rec3[0].key() != s1.key() || rec3[0].format != s1.format {
										orc = append(orc, fmt.Sprintf("C14:redact: after SafePrinter call #%d inside SafeFormat, %q is seen as %v (MakeFormat %v), directly as %s (MakeFormat %q)", k, d, rec3, rec3, s1.key(), s1.format))
									}
								}
								bare := m == 0 && w == "" && p == "" && vb == "v"
								if s1.justV != bare {
									orc = append(orc, fmt.Sprintf("C14:%s: justV=%v for %q", impl, s1.justV, d))
								}
								if impl == "redact" {
									// model comparison of the produced format string
									ofl := ""
									for i, c := range "+-# 0" {
										if s1.flags[i] {
											ofl += string(c)
										}
									}
									emit(Case{Line: fmt.Sprintf("mf %s %s %s %d", hx([]byte(ofl)), wpTok(s1.w, s1.wok), wpTok(s1.p, s1.pk), s1.verb),
										Real: b01(s1.justV) + " " + hx([]byte(s1.format)), Nontriv: true, Kind: "mf"})
								}
							}
							// (1b) the state a Formatter sees directly is the one fmt shows it (the '0'+'-' flag
							// combination written out in the directive is the documented exception)
							if vb != "T" && vb != "p" && vb != "w" && !((strings.Contains(fl, "0") || w == "0") && strings.Contains(fl, "-")) {
								var rf, rr []probeState
								_ = fmt.Sprintf(d, append(append([]interface{}{}, star...), probe{&rf})...)
								_ = redact.Sprintf(d, append(append([]interface{}{}, star...), probe{&rr})...)
								if len(rf) == 1 && len(rr) == 1 && rf[0].key() != rr[0].key() {
									orc = append(orc, fmt.Sprintf("C14:a Formatter under %q with star operands %v sees %s under redact, %s under fmt", d, star, rr[0].key(), rf[0].key()))
								}
							}
							// (3) a Formatter reached inside a container, after other elements were printed
							// under the same directive, sees the state the directive gave
							if vb != "T" && vb != "p" && vb != "w" {
								before := nestBefore[(vi+m)%len(nestBefore)]
								keys := map[string][2]string{}
								for _, impl := range []string{"fmt", "redact"} {
									var direct, nested []probeState
									a1 := append(append([]interface{}{}, star...), probe{&direct})
									var cont interface{} = []interface{}{before, probe{&nested}}
									if (vi+m)%3 == 1 {
										cont = struct {
											A interface{}
											B fmt.Formatter
										}{before, probe{&nested}}
									}
									a2 := append(append([]interface{}{}, star...), cont)
									if impl == "fmt" {
										_ = fmt.Sprintf(d, a1...)
										_ = fmt.Sprintf(d, a2...)
									} else {
										_ = redact.Sprintf(d, a1...)
										_ = redact.Sprintf(d, a2...)
									}
									k := [2]string{"-", "-"}
									if len(direct) == 1 {
										k[0] = direct[0].key() + " " + direct[0].format
									}
									if len(nested) == 1 {
										k[1] = nested[0].key() + " " + nested[0].format
									}
									keys[impl] = k
								}
								// (fmt itself zeroes width and precision after a recovered panic; what matters is
								// that redact's State agrees with fmt's wherever the two agree on the direct call)
								if keys["fmt"][0] == keys["redact"][0] && keys["fmt"][1] != keys["redact"][1] {
									orc = append(orc, fmt.Sprintf("C14:Formatter inside a container after %v under %q sees %s under redact, %s under fmt", before, d, keys["redact"][1], keys["fmt"][1]))
								}
							}
							// (2) wrappers are transparent under the standard fmt
							if vb != "T" && vb != "p" && vb != "w" {
								// every operand kind for directives without width and precision (the bare ones are
								// where a forwarding shortcut would sit), one operand per directive otherwise
								ops := []interface{}{operands[(vi+m)%len(operands)]}
								if w == "" && p == "" {
									ops = operands
								}
								for _, op := range ops {
									a1 := append(append([]interface{}{}, star...), op)
									a2 := append(append([]interface{}{}, star...), redact.Safe(op))
									a3 := append(append([]interface{}{}, star...), redact.Unsafe(op))
									want := fmt.Sprintf(d, a1...)
									if got := fmt.Sprintf(d, a2...); got != want {
										orc = append(orc, fmt.Sprintf("C14:fmt.Sprintf(%q, Safe(x))=%q, for x %q", d, got, want))
									}
									if got := fmt.Sprintf(d, a3...); got != want {
										orc = append(orc, fmt.Sprintf("C14:fmt.Sprintf(%q, Unsafe(x))=%q, for x %q", d, got, want))
									}
								}
								if m == 0 && w == "" && p == "" && vb == "v" {
									// the print family of the standard fmt
									for _, op := range operands {
										if fmt.Sprint(redact.Safe(op)) != fmt.Sprint(op) || fmt.Sprint(redact.Unsafe(op)) != fmt.Sprint(op) ||
											fmt.Sprintln(redact.Safe(op), redact.Unsafe(op)) != fmt.Sprintln(op, op) {
											orc = append(orc, fmt.Sprintf("C14:fmt.Sprint/Sprintln of Safe(x)/Unsafe(x) differ from x for x %v", op))
										}
									}
								}
							}
							emit(Case{Real: d, Oracle: orc, Nontriv: true, Kind: "directive"})
						}
					}
				}
			}
		})
}

var nestBefore = []interface{}{math.NaN(), math.Inf(1), 1.5, -2, "s", nil, complex(math.NaN(), 1), true, []byte("b"), errors.New("e"), strg{"q"}, panicStr{}, 'x', uint8(3),
	sfCall{0}, sfCall{1}, sfCall{2}, sfCall{3}, sfCall{4}, sfCall{5}, sfCall{6}, sfCall{7}, sfCall{8}, sfCall{9}, sfCall{10}}

// sfCall: a SafeFormatter whose SafeFormat makes one call on the SafePrinter (each method in turn):
// none of them may disturb the directive state that later siblings, or the caller itself, observe.
type sfCall struct{ K int }

func spCall(p redact.SafePrinter, k int) {
	switch k % 11 {
	case 0:
		p.SafeInt(7)
	case 1:
		p.SafeUint(7)
	case 2:
		p.SafeFloat(2.5)
	case 3:
		p.SafeString("s")
	case 4:
		p.SafeRune('r')
	case 5:
		p.SafeByte('b')
	case 6:
		p.SafeBytes([]byte("sb"))
	case 7:
		p.UnsafeString("u")
	case 8:
		p.Print("p", 1)
	case 9:
		p.Printf("%5.1f|%v", 2.5, "x")
	case 10:
		p.UnsafeRune('u')
	}
}

func (s sfCall) SafeFormat(p redact.SafePrinter, verb rune) { spCall(p, s.K) }

// probeSF: a SafeFormatter that first uses its SafePrinter (call k) and then records the state.
type probeSF struct {
	rec *[]probeState
	k   int
}

func (q probeSF) SafeFormat(p redact.SafePrinter, verb rune) {
	spCall(p, q.k)
	probe{q.rec}.Format(p, verb)
}

// fwdSF: a SafeFormatter that forwards the active directive to its payload with MakeFormat.
type fwdSF struct{ x interface{} }

func (f fwdSF) SafeFormat(p redact.SafePrinter, verb rune) {
	justV, format := redact.MakeFormat(p, verb)
	if justV {
		p.Print(f.x)
	} else {
		p.Printf(format, f.x)
	}
}

var fwdDirs = []string{"%f", "%.0f", "%8f", "%8.0f", "%e", "%.0e", "%x", "%.0x", "%5d", "%05d", "%d", "% d", "%+v", "%v", "%s", "%.0s", "%6.2f", "%-6v", "%#x", "%q"}
var fwdVals = []interface{}{2.4, 17, "fw‹d", 255, -3.75}

type panicStr struct{}

func (panicStr) String() string { panic("boom") }

func wpTok(v int, ok bool) string {
	if !ok {
		return "-"
	}
	return fmt.Sprint(v)
}

// --------------------------------------------------------------- C15

func streamErrorf(rep *Report, tier string, seed uint64) {
	n := 40000
	if tier == "thorough" {
		n = 1000000
	}
	RunStream(rep, "P-errorf", false, "formats with 0-3 %w among <=4 directives, flags, widths, [n] indexes; operands error/nil/non-error/wrapped/missing; hook on/off; compared with Sprintf and fmt.Errorf", false, 1,
		func(sh, ns int, emit func(Case)) {
			r := NewRng(seed*1000 + 909)
			resetRegistry()
			defer redact.RegisterRedactErrorFn(nil)
			e1, e2 := errors.New("err‹one"), wrapErr{"outer", errors.New("in")}
			operandPool := []interface{}{e1, e2, nil, "notanerror", 42, redact.Safe(e1), redact.Unsafe(e2), (*nilRecvErr)(nil), errFmtr{"x"}, sfErr{"y"}, sfErrW{errors.New("cause")},
				// errors of non-comparable dynamic types
				sliceErr{errors.New("m1"), errors.New("m2")}, mapErr{"k": "v"}, redact.Unsafe(sliceErr{errors.New("m3")})}
			for i := 0; i < n; i++ {
				hookOn := r.Chance(30)
				if hookOn {
					redact.RegisterRedactErrorFn(testHook)
				} else {
					redact.RegisterRedactErrorFn(nil)
				}
				nd := 1 + r.Intn(4)
				var sb strings.Builder
				var dirs []string
				nw := 0
				sharpW := false
				for j := 0; j < nd; j++ {
					sb.WriteString([]string{"", "x ", ": ", "‹"}[r.Intn(4)])
					d := "%"
					if r.Chance(45) {
						if r.Chance(25) {
							d += []string{"+", "-", "#", " ", "0"}[r.Intn(5)]
						}
						if r.Chance(20) {
							d += fmt.Sprintf("[%d]", 1+r.Intn(nd+1))
						}
						if r.Chance(20) {
							d += []string{"3", "12"}[r.Intn(2)]
						}
						d += "w"
						nw++
						if strings.Contains(d, "#") || strings.Contains(d, "+") {
							sharpW = true // '#' or '+' on %w: only the verb v turns them into Go-syntax / field-name mode in the fork
						}
					} else {
						d += []string{"v", "s", "d", "+v", "q"}[r.Intn(5)]
					}
					dirs = append(dirs, d)
					sb.WriteString(d)
				}
				f := sb.String()
				na := nd
				if r.Chance(15) {
					na = r.Intn(nd + 1)
				}
				args := make([]interface{}, na)
				for j := range args {
					args[j] = operandPool[r.Intn(len(operandPool))]
				}
				var s redact.RedactableString
				var err error
				pm := safely(func() { s, err = redact.HelperForErrorf(f, args...) })
				var orc []string
				if pm != "" {
					orc = append(orc, "C15:HelperForErrorf panicked: "+pm)
				} else {
					if e := wflErr([]byte(s)); e != "" {
						orc = append(orc, wfTag(e)+e)
					}
					// expected error: exactly one %w whose operand (unwrapped) is an error
					wantErr, exactlyOne, reach := expectedWrapped(f, args)
					if nw != 1 {
						exactlyOne = false
					}
					if exactlyOne {
						if !sameErr(err, wantErr) {
							orc = append(orc, fmt.Sprintf("C15:returned error %v, want the %%w operand %v", err, wantErr))
						}
					} else if err != nil {
						site := ""
						if nw >= 2 && reach == 1 && sameErr(err, wantErr) {
							site = "D8:extra-w-without-dispatch@@"
						}
						orc = append(orc, fmt.Sprintf("%sC15:returned error %v although the format does not have exactly one correctly used %%w", site, err))
					}
					if nw == 0 {
						if s2 := redact.Sprintf(f, args...); s2 != s {
							orc = append(orc, fmt.Sprintf("C15:text differs from Sprintf: %q vs %q", s, s2))
						}
					}
					if nw == 1 && exactlyOne {
						// a correctly used %w renders exactly like %v
						fv := replaceW(f)
						if s2 := redact.Sprintf(fv, args...); s2 != s {
							site := ""
							if sharpW {
								site = "D5:sharp-w@@"
							}
							orc = append(orc, fmt.Sprintf("%sC15:%%w does not render like %%v: %q vs %q", site, s, s2))
						}
					}
					if nw <= 1 && !hookOn && !hasRedactSpecific(args) && !excludedDirective(strings.ReplaceAll(f, "w", "v")) {
						fe := fmt.Errorf(f, args...)
						if got := s.StripMarkers(); got != string(escQ([]byte(fe.Error()))) {
							site := ""
							if sharpW {
								site = "D5:sharp-w@@"
							}
							orc = append(orc, fmt.Sprintf("%sC15:text %q differs from fmt.Errorf's message %q", site, got, fe.Error()))
						}
						if u := errors.Unwrap(fe); !sameErr(u, err) {
							orc = append(orc, fmt.Sprintf("C15:returned error %v differs from fmt.Errorf's Unwrap %v", err, u))
						}
					}
				}
				emit(Case{Real: fmt.Sprintf("HelperForErrorf(%q, %d args) => %q, %v", f, na, s, err), Oracle: orc, Nontriv: nw > 0, Kind: fmt.Sprintf("nw=%d", nw)})
			}
		})
}

func hasRedactSpecific(args []interface{}) bool {
	for _, a := range args {
		switch a.(type) {
		case sfErr, sfErrW:
			return true
		}
		if a != nil {
			t := fmt.Sprintf("%T", a)
			if strings.Contains(t, "redact.") {
				return true
			}
		}
	}
	return false
}

func replaceW(f string) string {
	// replace the verb w by v in directives (w never occurs in our literals)
	return strings.ReplaceAll(f, "w", "v")
}

// expectedWrapped parses the (simple) formats generated above. It returns the
// error operand of the last %w that reaches method dispatch, whether some %w
// has an error operand, and how many %w directives reach method dispatch
// (operand present and not nil).
// sliceErr, mapErr: error types that cannot be compared with ==.
type sliceErr []error

func (s sliceErr) Error() string { return fmt.Sprintf("%d errors", len(s)) }

type mapErr map[string]string

func (m mapErr) Error() string { return "maperr" }

// sameErr compares two error values without panicking on non-comparable dynamic types.
func sameErr(a, b error) bool {
	if a == nil || b == nil {
		return a == nil && b == nil
	}
	ta, tb := reflect.TypeOf(a), reflect.TypeOf(b)
	if ta != tb {
		return false
	}
	if ta.Comparable() {
		return a == b
	}
	return reflect.DeepEqual(a, b)
}

func expectedWrapped(f string, args []interface{}) (error, bool, int) {
	argNum := 0
	i := 0
	var found error
	ok := false
	reach := 0
	for i < len(f) {
		if f[i] != '%' {
			i++
			continue
		}
		i++
		for i < len(f) && strings.IndexByte("+-# 0", f[i]) >= 0 {
			i++
		}
		good := true
		afterIndex := false
		if i < len(f) && f[i] == '[' {
			j := strings.IndexByte(f[i:], ']')
			var k int
			fmt.Sscanf(f[i+1:i+j], "%d", &k)
			if k-1 >= 0 && k-1 < len(args) {
				argNum = k - 1
			} else {
				good = false
			}
			afterIndex = true
			i += j + 1
		}
		for i < len(f) && f[i] >= '0' && f[i] <= '9' {
			if afterIndex {
				good = false // "%[3]2d"
			}
			i++
		}
		if i >= len(f) {
			break
		}
		verb := f[i]
		i++
		if !good {
			continue
		}
		if verb == 'w' {
			if argNum < len(args) {
				a := args[argNum]
				if uw, isU := unwrapArg(a); isU {
					a = uw
				}
				switch a.(type) {
				case nil, string, int:
					// printed without method dispatch: %w is reported as a bad verb but the capture is not cancelled
				default:
					reach++
				}
				if e, isErr := a.(error); isErr {
					found, ok = e, true
				}
			}
		}
		argNum++
	}
	return found, ok, reach
}

func unwrapArg(a interface{}) (interface{}, bool) {
	if g, ok := a.(interface{ GetValue() interface{} }); ok {
		return g.GetValue(), true
	}
	return nil, false
}

// --------------------------------------------------------------- C12

type probeCall struct {
	name string
	f    func() string
}

func probeCalls() []probeCall {
	e := errors.New("pe")
	return []probeCall{
		{"sprint-mixed", func() string { return string(redact.Sprint("a", 1, redact.Safe("s"), 2.5)) }},
		{"sprintf-flags", func() string { return string(redact.Sprintf("%+08.3f|%-6d|%#x|%q", 3.14159, 42, 255, "q‹")) }},
		{"sprintf-bad", func() string { return string(redact.Sprintf("%!|%z|%[5]d|%d", 1)) }},
		{"sprintf-struct", func() string { return string(redact.Sprintf("%+v|%#v", inner{A: "x", b: 2}, []interface{}{1, "y"})) }},
		{"errorf", func() string { s, err := redact.HelperForErrorf("w: %w", e); return fmt.Sprint(s, "|", err == e) }},
		{"errorf-none", func() string { s, err := redact.HelperForErrorf("n: %v", e); return fmt.Sprint(s, "|", err == nil) }},
		{"sprintf-w", func() string { return string(redact.Sprintf("%w", e)) }},
		{"sprintfn", func() string {
			return string(redact.Sprintfn(func(w redact.SafePrinter) { w.SafeString("s"); w.UnsafeString("u"); w.Print("p", 1) }))
		}},
		{"builder", func() string {
			var b redact.StringBuilder
			b.Printf("%d %s", 1, "x")
			b.SafeRune('r')
			return string(b.RedactableString())
		}},
		{"width-state", func() string { return string(redact.Sprintf("%v|%v", fmtr{"a"}, fmtr{"b"})) }},
		{"sf", func() string { return string(redact.Sprint(safeFmtr{"s", "u"})) }},
		{"forward-a", func() string {
			return string(redact.Sprintf("%.0f|%f|%8.0f|%8f|%.0e|%e", fwdSF{2.4}, fwdSF{2.4}, fwdSF{2.4}, fwdSF{2.4}, fwdSF{2.4}, fwdSF{2.4}))
		}},
		{"forward-b", func() string {
			return string(redact.Sprintf("%x|%.0x|%5d|%05d|%s|%.0s|%d|% d", fwdSF{255}, fwdSF{255}, fwdSF{17}, fwdSF{17}, fwdSF{"fw"}, fwdSF{"fw"}, fwdSF{17}, fwdSF{17}))
		}},
		{"unsafe-safe", func() string {
			return string(redact.Sprint(redact.Unsafe(redact.Safe("x")), redact.Safe(redact.Unsafe("y"))))
		}},
	}
}

func historyCall(r *Rng) {
	switch r.Intn(11) {
	case 10: // a formatter that forwards its directive with MakeFormat
		safely(func() { redact.Sprintf(fwdDirs[r.Intn(len(fwdDirs))], fwdSF{fwdVals[r.Intn(len(fwdVals))]}) })
	case 0: // panicking out of the printer: panic while printing a panic payload
		safely(func() { redact.Sprint(pString{pString{"deep"}}) })
	case 1: // very large output
		redact.Sprintf("%70000d|%s", 1, strings.Repeat("big‹", 100))
	case 2:
		redact.Sprint(redact.Unsafe(fmtRunner{ops: []bop{{tag: "ss", p: []byte("x")}}, out: new([]string)}))
	case 3:
		redact.Sprintf("%z %!|%[3]*.[2]*[1]f|%w", 1, 2, 3)
	case 4:
		redact.HelperForErrorf("%w %w", errors.New("a"), errors.New("b"))
	case 5:
		redact.Sprintfn(func(w redact.SafePrinter) { w.Printf("%+#08v", inner{A: 1}); w.UnsafeString("\n") })
	case 6:
		safely(func() { redact.Sprint(pSafeFormat{pString{"x"}}) })
	case 8:
		// ill-formed redactables constructed by hand (documented misuse, but a value class all the same)
		g := []string{"›", "‹", "›‹", "a›", "‹›"}[r.Intn(5)]
		if r.Bool() {
			safely(func() { redact.Sprint(redact.RedactableString(g), "") })
		} else {
			safely(func() { redact.Sprintf("%v%.0s", redact.RedactableBytes(g), "dropped") })
		}
	case 7:
		var b redact.StringBuilder
		b.Print(redact.Safe(pString{"s"}))
		_, _ = redact.Fprint(&recWriter{mode: 1}, "x")
	default:
		id := 0
		c := genCase(r, GenOpts{MaxDepth: 3}, true)
		_ = id
		safely(func() { c.run(0) })
	}
}

func streamHistories(rep *Report, tier string, seed uint64) {
	rounds := 300
	if tier == "thorough" {
		rounds = 6000
	}
	// reference answers from a fresh process
	ref := map[string]string{}
	note := ""
	if out, err := exec.Command(os.Args[0], "probes").Output(); err == nil {
		for _, l := range strings.Split(strings.TrimSpace(string(out)), "\n") {
			kv := strings.SplitN(l, "\t", 2)
			if len(kv) == 2 {
				ref[kv[0]] = kv[1]
			}
		}
	} else {
		note = "fresh-process reference unavailable: " + err.Error()
	}
	RunStream(rep, "H-histories", false, "random histories (<=200 calls over every entry point and value class, incl. propagating panics, >64KiB outputs, overrides, bad verbs, %w, nested printers) each followed by 12 probe calls compared with a fresh process; pooled printers inspected", false, 1,
		func(sh, ns int, emit func(Case)) {
			resetRegistry()
			redact.RegisterRedactErrorFn(nil)
			r := NewRng(seed*1000 + 1111)
			probes := probeCalls()
			allocs0 := rfmt.VerifPoolAllocs()
			var kept []struct{ s, copy string }
			for round := 0; round < rounds; round++ {
				nh := r.Intn(200)
				for i := 0; i < nh; i++ {
					historyCall(r)
				}
				resetRegistry()
				redact.RegisterRedactErrorFn(nil)
				var orc []string
				st := rfmt.VerifPeekPooled()
				if !st.Fresh {
					if st.BufLen != 0 || st.ValidUntil != 0 || st.MarkerOpen || st.Mode != 0 || st.Override != 0 || !st.WrappedErrNil || !st.ArgNil || st.ValueValid {
						orc = append(orc, fmt.Sprintf("C12:pooled printer is not clean: %+v", st))
					}
				}
				for _, p := range probes {
					got := p.f()
					if want, ok := ref[p.name]; ok && fmt.Sprintf("%q", got) != want {
						orc = append(orc, fmt.Sprintf("C12:probe %s after history gives %q, fresh process gives %q", p.name, got, want))
					}
					if len(kept) < 2000 {
						kept = append(kept, struct{ s, copy string }{got, string(append([]byte(nil), got...))})
					}
				}
				// a formatter that forwards its directive prints like a direct call whatever was forwarded
				// before: directive pairs that differ only in whether width / precision are *present*,
				// with a width that is new in every round (so that a first-use-wins cache cannot have
				// been primed the same way in the fresh process)
				{
					w := 9 + round%55
					pairs := [][2]string{{fmt.Sprintf("%%%df", w), fmt.Sprintf("%%%d.0f", w)}, {fmt.Sprintf("%%.%de", w%7), fmt.Sprintf("%%%d.%de", 0, w%7)},
						{fmt.Sprintf("%%%dx", w), fmt.Sprintf("%%%d.0x", w)}, {fmt.Sprintf("%%%ds", w), fmt.Sprintf("%%%d.0s", w)}}
					pr := pairs[round%len(pairs)]
					if round%2 == 1 {
						pr[0], pr[1] = pr[1], pr[0]
					}
					val := fwdVals[round%len(fwdVals)]
					for _, d := range pr {
						got, want := redact.Sprintf(d, fwdSF{val}), redact.Sprintf(d, val)
						if got != want {
							orc = append(orc, fmt.Sprintf("C12:Sprintf(%q, forwarder{%v}) = %q after the earlier calls, a direct call gives %q", d, val, got, want))
						}
					}
				}
				// the bytes an F-variant hands to its destination stay intact while the destination
				// itself prints (the printer may be back in the pool by then, its storage must not be)
				for _, mk := range []func(w io.Writer) (int, error){
					func(w io.Writer) (int, error) { return redact.Fprintf(w, "deliver %s %d", "payload‹x", round) },
					func(w io.Writer) (int, error) { return redact.Fprint(w, "deliver", round, "payload") },
				} {
					var plain bytes.Buffer
					_, _ = mk(&plain)
					rw := &recWriter{mode: 3}
					_, _ = mk(rw)
					if len(rw.calls) != 1 || !bytes.Equal(rw.calls[0], plain.Bytes()) {
						orc = append(orc, fmt.Sprintf("C12:bytes handed to the destination changed while the destination was printing: %q vs %q", rw.calls, plain.Bytes()))
					}
				}
				emit(Case{Real: fmt.Sprintf("history of %d calls, pool fresh=%v", nh, st.Fresh), Oracle: orc, Nontriv: nh > 0, Kind: "history"})
			}
			var orc []string
			for _, k := range kept {
				if k.s != k.copy {
					orc = append(orc, "C12:a string returned earlier was modified by later calls")
					break
				}
			}
			emit(Case{Real: fmt.Sprintf("pool allocations during run: %d; %s", rfmt.VerifPoolAllocs()-allocs0, note), Oracle: orc, Nontriv: true, Kind: "pool"})
		})
	// schedules: goroutines issuing calls concurrently, probes compared with the sequential reference
	ng := 16
	RunStream(rep, "H-concurrent", false, "16 goroutines issuing random calls and probes concurrently (run the harness built with -race for race detection)", false, 1,
		func(sh, ns int, emit func(Case)) {
			resetRegistry()
			redact.RegisterRedactErrorFn(nil)
			probes := probeCalls()
			var wg sync.WaitGroup
			var mu sync.Mutex
			fails := map[string]bool{}
			per := rounds / 4
			for g := 0; g < ng; g++ {
				wg.Add(1)
				go func(g int) {
					defer wg.Done()
					r := NewRng(seed*1000 + 2222 + uint64(g))
					for i := 0; i < per; i++ {
						for j := 0; j < 5; j++ {
							// history calls that do not touch global configuration
							c := genCase(r, GenOpts{MaxDepth: 2}, true)
							safely(func() { c.run(0) })
						}
						p := probes[r.Intn(len(probes))]
						got := p.f()
						if want, ok := ref[p.name]; ok && fmt.Sprintf("%q", got) != want {
							mu.Lock()
							fails[fmt.Sprintf("C12:probe %s under concurrency gives %q, want %q", p.name, got, want)] = true
							mu.Unlock()
						}
					}
				}(g)
			}
			wg.Wait()
			var orc []string
			for f := range fails {
				orc = append(orc, f)
			}
			emit(Case{Real: fmt.Sprintf("%d goroutines x %d rounds", ng, per), Oracle: orc, Nontriv: true, Kind: "concurrent"})
			emit(Case{Real: "placeholder second case for counting", Nontriv: true, Kind: "concurrent"})
		})
}

func printProbes() {
	resetRegistry()
	for _, p := range probeCalls() {
		fmt.Printf("%s\t%q\n", p.name, p.f())
	}
}

var _ = bytes.Equal
