package main

import (
	"bytes"
	"fmt"

	"github.com/cockroachdb/redact"
	"github.com/cockroachdb/redact/internal/escape"
	"github.com/cockroachdb/redact/internal/markers"
)

// enumStrings enumerates all concatenations of at most maxLen alphabet
// symbols; global index i is handled by shard i%nshards.
func enumStrings(alpha [][]byte, maxLen int, shard, nshards int, f func([]byte)) {
	idx := 0
	var rec func(prefix []byte, depth int)
	rec = func(prefix []byte, depth int) {
		if idx%nshards == shard {
			f(prefix)
		}
		idx++
		if depth == maxLen {
			return
		}
		for _, a := range alpha {
			rec(append(append([]byte(nil), prefix...), a...), depth+1)
		}
	}
	rec(nil, 0)
}

func pow(a, b int) int {
	r := 1
	for i := 0; i < b; i++ {
		r *= a
	}
	return r
}
func sumPow(a, maxLen int) int {
	t := 0
	for i := 0; i <= maxLen; i++ {
		t += pow(a, i)
	}
	return t
}

var alphaM = [][]byte{[]byte("‹"), []byte("›"), []byte("×"), {'\n'}, {'a'}, {0xE2}, {0x80}, {0xB9}, {0xBA}}

func randBytes(r *Rng, alpha [][]byte, maxSyms int) []byte {
	n := r.Intn(maxSyms + 1)
	var b []byte
	for i := 0; i < n; i++ {
		if r.Chance(10) {
			b = append(b, byte(r.Intn(256)))
		} else {
			b = append(b, alpha[r.Intn(len(alpha))]...)
		}
	}
	return b
}

func cp(b []byte) []byte { return append([]byte(nil), b...) }

func realRedact(b []byte) []byte { return []byte(markers.RedactableBytes(cp(b)).Redact()) }
func realStrip(b []byte) []byte  { return markers.RedactableBytes(cp(b)).StripMarkers() }

// markersCases: model comparison for Redact/StripMarkers/EscapeMarkers and the
// C07 oracles on one input.
func markersCases(s []byte, emit func(Case)) {
	rb := markers.RedactableBytes(cp(s))
	rs := markers.RedactableString(string(s))
	strip := rb.StripMarkers()
	red := []byte(rb.Redact())
	escm := redact.EscapeMarkers(cp(s))
	var orc []string
	// string and byte variants, conversions
	if rs.StripMarkers() != string(strip) {
		orc = append(orc, "string/bytes StripMarkers differ")
	}
	if string(rs.Redact()) != string(red) {
		orc = append(orc, "string/bytes Redact differ")
	}
	if !bytes.Equal([]byte(rs.ToBytes()), s) || string(rb.ToString()) != string(s) || string(rs.ToBytes().ToString()) != string(s) {
		orc = append(orc, "ToBytes/ToString do not round-trip")
	}
	// Redact idempotent on arbitrary strings
	if !bytes.Equal(realRedact(red), red) {
		orc = append(orc, fmt.Sprintf("Redact not idempotent: %x -> %x", red, realRedact(red)))
	}
	// StripMarkers leaves no marker on arbitrary strings
	if hasMarker(strip) {
		if bytes.Equal(strip, stripOnce(s)) {
			// the code removed exactly the delimiters; the remaining bytes re-form a marker
			orc = append(orc, "D4:strip-reassembles-marker@@StripMarkers output contains a marker re-assembled from partial-marker bytes around a removed delimiter")
		} else {
			orc = append(orc, "StripMarkers output contains a marker")
		}
	}
	// EscapeMarkers: no marker, equals replacement, idempotent
	if hasMarker(escm) {
		orc = append(orc, "EscapeMarkers output contains a marker")
	}
	if !bytes.Equal(escm, escQ(s)) {
		orc = append(orc, "EscapeMarkers != markers replaced by '?'")
	}
	if !bytes.Equal(redact.EscapeMarkers(cp(escm)), escm) {
		orc = append(orc, "EscapeMarkers not idempotent")
	}
	wf := wflErr(s) == "" || wfOnly(s)
	if wfOnly(s) {
		// exactness on well-formed strings
		if e := wfOnlyErr(red); e != "" {
			orc = append(orc, "Redact of a well-formed string is not well-formed: "+e)
		}
		if !bytes.Equal(dropEnvs(red), dropEnvs(s)) {
			orc = append(orc, "Redact changed the safe text")
		}
		if countEnv(red) != countEnv(s) {
			orc = append(orc, "Redact changed the number of envelopes")
		}
		for _, c := range envContents(red) {
			if !bytes.Equal(c, []byte("×")) {
				orc = append(orc, "Redact left envelope content")
			}
		}
		if !bytes.Equal(strip, stripOnce(s)) {
			orc = append(orc, "StripMarkers did not remove exactly the delimiters")
		}
	}
	h := hx(s)
	emit(Case{Line: "strip " + h, Real: hx(strip), Oracle: orc, Nontriv: hasMarker(s), Kind: kindM(s, wf)})
	emit(Case{Line: "redact " + h, Real: hx(red), Nontriv: hasMarker(s), Kind: "redact"})
	emit(Case{Line: "escm " + h, Real: hx(escm), Nontriv: hasMarker(s), Kind: "escm"})
}

func kindM(s []byte, wf bool) string {
	switch {
	case !hasMarker(s):
		return "strip:no-marker"
	case wf:
		return "strip:well-formed"
	default:
		return "strip:ill-formed"
	}
}

// wfOnly: strict alternation, closed, line feeds unrestricted.
func wfOnlyErr(p []byte) string {
	open := false
	for i, t := range gtokens(p) {
		switch t.k {
		case 's':
			if open {
				return fmt.Sprintf("nested start at token %d", i)
			}
			open = true
		case 'e':
			if !open {
				return fmt.Sprintf("end without start at token %d", i)
			}
			open = false
		}
	}
	if open {
		return "left open"
	}
	return ""
}
func wfOnly(p []byte) bool { return wfOnlyErr(p) == "" }

func streamMarkers(rep *Report, tier string, seed uint64) {
	maxLen := 6
	nrand := 30000
	if tier == "thorough" {
		maxLen = 7
		nrand = 1000000
	}
	RunStream(rep, "A-api", true, "the public wrappers of api.go / markers_print.go / util.go that have a body of their own: marker accessors, StringWithoutMarkers, SortStrings, Join", false, 1,
		func(sh, n int, emit func(Case)) {
			var orc []string
			if string(redact.StartMarker()) != "‹" || string(redact.EndMarker()) != "›" || string(redact.RedactedMarker()) != "‹×›" {
				orc = append(orc, fmt.Sprintf("C07:public marker accessors return %q %q %q", redact.StartMarker(), redact.EndMarker(), redact.RedactedMarker()))
			}
			for _, f := range []redact.SafeFormatter{safeFmtr{"s‹", "u›\nv"}, safeFmtr{"", ""}, sfErr{"e"}} {
				want := redact.Sprint(f).StripMarkers()
				if got := redact.StringWithoutMarkers(f); got != want {
					orc = append(orc, fmt.Sprintf("C07:StringWithoutMarkers(%v) = %q, StripMarkers(Sprint) = %q", f, got, want))
				}
			}
			ss := []redact.RedactableString{"b", "‹a›", "", "a", "‹b›"}
			redact.SortStrings(ss)
			for i := 1; i < len(ss); i++ {
				if ss[i-1] > ss[i] {
					orc = append(orc, fmt.Sprintf("C08:SortStrings leaves %q before %q", ss[i-1], ss[i]))
				}
			}
			emit(Case{Real: "public wrappers", Oracle: orc, Nontriv: true, Kind: "api"})
		})
	RunStream(rep, "M-exhaustive", true, fmt.Sprintf("all strings of <=%d symbols over {‹,›,×,LF,a,E2,80,B9,BA} (%d strings)", maxLen, sumPow(len(alphaM), maxLen)), true, 16,
		func(sh, n int, emit func(Case)) {
			enumStrings(alphaM, maxLen, sh, n, func(s []byte) { markersCases(s, emit) })
		})
	RunStream(rep, "M-random", false, "random strings up to 200 symbols", true, 16,
		func(sh, n int, emit func(Case)) {
			r := NewRng(seed*1000 + uint64(sh))
			for i := 0; i < nrand/n; i++ {
				markersCases(randBytes(r, alphaM, 1+r.Intn(200)), emit)
			}
		})
}

// ------------------------------------------------------------------ escape

var alphaE = [][]byte{{0xE2}, {0x80}, {0xB9}, {0xBA}, {'a'}, {' '}, {'\n'}, {'?'}}

func b01(b bool) string {
	if b {
		return "1"
	}
	return "0"
}

func escapeCases(s []byte, emit func(Case)) {
	for sl := 0; sl <= len(s); sl++ {
		for _, nl := range []bool{false, true} {
			for _, st := range []bool{false, true} {
				var res []byte
				pm := safely(func() { res = escape.InternalEscapeBytes(cp(s), sl, nl, st) })
				real := hx(res)
				if pm != "" {
					real = "PANIC"
				}
				var orc []string
				if pm != "" {
					orc = append(orc, "InternalEscapeBytes panicked: "+pm)
				}
				if pm == "" && !st && !nl && !danglingGo(s[:sl]) && len(res) >= sl {
					// safe-mode escaping leaves no marker in the escaped suffix
					if hasMarker(res[sl:]) {
						orc = append(orc, "marker survives in the escaped suffix")
					}
					if !bytes.Equal(res[:sl], s[:sl]) {
						orc = append(orc, "escaping altered the already-validated prefix")
					}
				}
				emit(Case{Line: fmt.Sprintf("esc %d %s %s %s", sl, b01(nl), b01(st), hx(s)), Real: real, Oracle: orc,
					Nontriv: !bytes.Equal(res, s), Kind: "esc:nl=" + b01(nl) + ",strip=" + b01(st)})
			}
		}
	}
}

func danglingGo(p []byte) bool {
	n := len(p)
	return n >= 1 && p[n-1] == 0xE2 || n >= 2 && p[n-2] == 0xE2 && p[n-1] == 0x80
}

func min(a, b int) int {
	if a < b {
		return a
	}
	return b
}

// escapeBytesCase: C10's statements about the public EscapeBytes/EscapeMarkers.
func escapeBytesCase(s []byte, emit func(Case)) {
	var eb []byte
	pm := safely(func() { eb = []byte(redact.EscapeBytes(cp(s))) })
	var orc []string
	if pm != "" {
		orc = append(orc, "EscapeBytes panicked: "+pm)
		emit(Case{Line: "escbytes " + hx(s), Real: "PANIC", Oracle: orc, Kind: "escbytes"})
		return
	}
	if e := wflErr(eb); e != "" {
		orc = append(orc, "EscapeBytes output not a well-formed line-safe redactable: "+e)
	}
	want := escQ(s)
	if tailBadGo(append([]byte("‹"), s...)) {
		want = append(want, '?')
	}
	if got := realStrip(eb); !bytes.Equal(got, want) {
		orc = append(orc, fmt.Sprintf("strip(EscapeBytes(b)) = %x, want %x", got, want))
	}
	red := realRedact(eb)
	rest := bytes.ReplaceAll(red, redacted, nil)
	if !bytes.Equal(rest, onlyLF(s)) {
		orc = append(orc, fmt.Sprintf("redact(EscapeBytes(b)) = %x is not redacted markers plus the line feeds of b", red))
	}
	if e := perLineErr(eb, realRedact, realStrip); e != "" {
		orc = append(orc, "EscapeBytes: "+e)
	}
	// the public EscapeMarkers: markers become '?', every other byte (valid UTF-8 or not) is left alone
	em := redact.EscapeMarkers(cp(s))
	if !bytes.Equal(em, escQ(s)) {
		orc = append(orc, fmt.Sprintf("EscapeMarkers(b) = %x, want b with each marker replaced by '?' = %x", em, escQ(s)))
	}
	if !bytes.Equal(redact.EscapeMarkers(cp(em)), em) {
		orc = append(orc, "EscapeMarkers is not idempotent")
	}
	// escaping is idempotent: EscapeMarkers∘EscapeMarkers, and safe-mode escape twice
	e1 := escape.InternalEscapeBytes(cp(s), 0, false, false)
	e2 := escape.InternalEscapeBytes(cp(e1), 0, false, false)
	if !bytes.Equal(e1, e2) {
		orc = append(orc, "safe-mode escaping is not idempotent")
	}
	emit(Case{Line: "escbytes " + hx(s), Real: hx(eb), Oracle: orc, Nontriv: hasMarker(s) || bytes.IndexByte(s, '\n') >= 0, Kind: "escbytes"})
	emit(Case{Line: "tailbad " + hx(s), Real: b01(tailBadGo(s)), Nontriv: len(s) > 0 && s[len(s)-1] >= 0x80, Kind: "tailbad"})
}

func streamEscape(rep *Report, tier string, seed uint64) {
	maxLen := 5
	nrand := 20000
	if tier == "thorough" {
		maxLen = 6
		nrand = 400000
	}
	RunStream(rep, "E-exhaustive", true, fmt.Sprintf("all strings of <=%d bytes over {E2,80,B9,BA,a,space,LF,?} x every startLoc x breakNewLines x strip", maxLen), true, 16,
		func(sh, n int, emit func(Case)) {
			enumStrings(alphaE, maxLen, sh, n, func(s []byte) {
				escapeCases(s, emit)
				escapeBytesCase(s, emit)
			})
		})
	RunStream(rep, "E-random", false, "random strings up to 300 bytes, random startLoc", true, 16,
		func(sh, n int, emit func(Case)) {
			r := NewRng(seed*1000 + 17 + uint64(sh))
			for i := 0; i < nrand/n; i++ {
				s := randBytes(r, append(alphaE, []byte("‹"), []byte("›")), 1+r.Intn(100))
				sl := r.Intn(len(s) + 1)
				nl, st := r.Bool(), r.Chance(20)
				var res []byte
				pm := safely(func() { res = escape.InternalEscapeBytes(cp(s), sl, nl, st) })
				real := hx(res)
				var orc []string
				if pm != "" {
					real = "PANIC"
					orc = append(orc, "InternalEscapeBytes panicked: "+pm)
				}
				emit(Case{Line: fmt.Sprintf("esc %d %s %s %s", sl, b01(nl), b01(st), hx(s)), Real: real, Oracle: orc, Nontriv: !bytes.Equal(res, s), Kind: "esc-random"})
				escapeBytesCase(s, emit)
			}
		})
	// UTF-8 tail test: all 4-byte tails over one representative per byte class
	classes := []byte{0x00, 0x41, 0x7F, 0x80, 0x8F, 0x90, 0x9F, 0xA0, 0xBF, 0xC0, 0xC2, 0xDF, 0xE0, 0xE1, 0xE2, 0xED, 0xEF, 0xF0, 0xF1, 0xF4, 0xF5, 0xFF, 0xB9, 0xBA, 0x3F, 0x0A}
	var alphaT [][]byte
	for _, c := range classes {
		alphaT = append(alphaT, []byte{c})
	}
	tl := 4
	if tier == "thorough" {
		tl = 5
	}
	RunStream(rep, "T-tailbad", true, fmt.Sprintf("all byte strings of <=%d bytes over %d UTF-8 byte-class representatives", tl, len(classes)), true, 16,
		func(sh, n int, emit func(Case)) {
			enumStrings(alphaT, tl, sh, n, func(s []byte) {
				emit(Case{Line: "tailbad " + hx(s), Real: b01(tailBadGo(s)), Nontriv: len(s) > 0 && s[len(s)-1] >= 0x80, Kind: "tailbad"})
			})
		})
}
