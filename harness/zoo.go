package main

import (
	"errors"
	"fmt"
	"io"
	"math"
	"reflect"
	"strings"
	"sync"

	"github.com/cockroachdb/redact"
)

// The value zoo: concrete Go types covering the value universe of the
// properties. A Val describes a value as a tree; Build turns it into the Go
// value. Unsafe leaves take their content from an "instantiation" (0 or 1) so
// that two argument lists of the same shape can be produced (C02).

type VKind int

const (
	KNil VKind = iota
	KBool
	KInt
	KInt8
	KUint16
	KUint64
	KUintptr
	KFloat
	KComplex
	KString
	KBytes
	KNamedStr    // type MyStr string
	KNamedInt    // type MyInt int
	KSafeStr     // SafeValue-marked string type
	KSafeInt     // redact.SafeInt
	KRegInt      // registrable int type
	KRegStruct   // registrable struct type
	KErr         // plain error
	KStringer    // Stringer struct (value receiver)
	KPStringer   // Stringer with pointer receiver, non-nil pointer
	KNilStringer // nil pointer whose String method dereferences (panics -> <nil>)
	KGoStringer
	KFormatter // fmt.Formatter writing through fmt.State.Write
	KSafeFormatter
	KSafeMessager
	KErrFormatter // error that is also a Formatter
	KErrStringer  // error that is also a Stringer
	KPanicStringer
	KPanicError
	KPanicSafeFormatter
	KPtrStruct    // pointer to struct with an unsafe field
	KPtrRegStruct // pointer to a struct of a registrable type (the registry matches the pointee's exact type)
	KNilPtr
	KIntPtr
	KReflectValue // reflect.ValueOf(child)
	KSafe         // redact.Safe(child)
	KUnsafe       // redact.Unsafe(child)
	KSlice        // []interface{}
	KStrSlice     // []string
	KIntArr       // [2]int
	KMap          // map[string]interface{}
	KMapKeyed     // map[MyStr]int  (unsafe keys)
	KStruct       // struct{A interface{}; b interface{}}
	KRedactable   // RedactableString taken from the pool
	KRedactableB  // RedactableBytes
	KChan
	KFunc
	KByteArr // [3]byte
	KDuration
	KBuilder         // *StringBuilder with content
	KSafeStringer    // SafeValue-marked type with a String method
	KMapIfaceKey     // map[interface{}]string with a nil key, keys of several kinds
	KMapStructKey    // map with struct keys holding interface fields (one nil)
	KNilMapStringer  // nil value of a named map type whose String method writes to the map (panics)
	KNilSliceError   // nil value of a named slice type whose Error method indexes it (panics)
	KNilFuncStringer // nil value of a named func type whose String method calls it (panics)
	KFormatterWS     // fmt.Formatter writing through io.WriteString (the io.StringWriter fast path)
	KRune            // a rune (int32) operand that is a marker character, a line feed or an ordinary letter: %c %q %U %#U render the character itself
	KPanicRuntime    // Stringer whose method panics with a runtime.Error whose text carries the (unsafe) value: names[l] out of range
	KAnonTagged      // value of an unnamed struct type whose descriptor (%T, %#v) carries marker characters in a field tag
	KSafeBytes       // SafeValue-marked byte-slice type (fmtBytes path: %s %q %x %X leave printValue early)
	KAnonEmbedSafe   // unnamed struct type that gets SafeValue by embedding (promoted method; PkgPath of the type is empty)
	KSafeNilMap      // nil value of a SafeValue-marked map type (%#v leaves printValue early)
	KMapSortKeys     // maps whose printing order exercises fmtsort: unsigned keys around 1<<63, signed, floats incl. NaN/Inf/-0, bool, arrays, complex, uintptr
	kindCount
)

type Val struct {
	K    VKind
	ID   int // leaf identity (sentinel index)
	Kids []*Val
	R    string // for redactables: the content

	cached interface{}
}

// ---- types

type MyStr string
type MyInt int
type SafeStr string

func (SafeStr) SafeValue() {}

type safeStrg struct{ s string }

func (s safeStrg) SafeValue()     {}
func (s safeStrg) String() string { return "SS(" + s.s + ")" }

type RegInt int
type RegStruct struct {
	A string
	B int
}

type strg struct{ s string }

func (s strg) String() string { return "STR(" + s.s + ")" }

type pstrg struct{ s string }

func (s *pstrg) String() string { return "PSTR(" + s.s + ")" }

type gostrg struct{ s string }

func (s gostrg) GoString() string { return "GO(" + s.s + ")" }

type fmtr struct{ s string }

func (f fmtr) Format(st fmt.State, verb rune) {
	w, wok := st.Width()
	fmt.Fprintf(st, "FMT[%c|%v,%v|%s]", verb, w, wok, f.s)
}

type nilMapStr map[string]int

func (c nilMapStr) String() string { c["printed"]++; return "counters" }

type nilSliceErr []string

func (p nilSliceErr) Error() string { return p[0] }

type nilFuncStr func() string

func (f nilFuncStr) String() string { return f() }

type fmtrWS struct{ s string }

func (f fmtrWS) Format(st fmt.State, verb rune) {
	io.WriteString(st, "WS[")
	io.WriteString(st, f.s)
	st.Write([]byte("]"))
}

type safeFmtr struct {
	safe, unsafe string
}

func (f safeFmtr) SafeFormat(p redact.SafePrinter, verb rune) {
	p.SafeString(redact.SafeString("SF<" + f.safe + ">"))
	p.UnsafeString(f.unsafe)
	p.Printf("[%v|%d]", f.unsafe, redact.Safe(7))
}

// only the message is declared safe; `hidden` is an ordinary field
type safeMsgr struct{ s, hidden string }

func (m safeMsgr) SafeMessage() string { return "MSG(" + m.s + ")" }

type errFmtr struct{ s string }

func (e errFmtr) Error() string { return "errfmt:" + e.s }
func (e errFmtr) Format(st fmt.State, verb rune) {
	fmt.Fprintf(st, "EF{%s}", e.s)
}

type errStrg struct{ s string }

func (e errStrg) Error() string  { return "err:" + e.s }
func (e errStrg) String() string { return "str:" + e.s }

type panicStrg struct{ s string }

func (p panicStrg) String() string { panic("boom:" + p.s) }

// enumStrg: an "enum" whose String method indexes a table: out of range for every value used
// here, so that the runtime error's text ("index out of range [N] with length 3") carries N.
type enumStrg int

var enumNames = [...]string{"a", "b", "c"}

func (e enumStrg) String() string { return enumNames[int(e)] }

type safeTag struct{}

func (safeTag) SafeValue() {}

type safeBytesT []byte

func (safeBytesT) SafeValue() {}

type safeMapT map[string]int

func (safeMapT) SafeValue() {}

type safeSliceT []int

func (safeSliceT) SafeValue() {}

type panicErr struct{ s string }

func (p panicErr) Error() string { panic(errors.New("eboom:" + p.s)) }

type panicSF struct{ s string }

func (p panicSF) SafeFormat(w redact.SafePrinter, _ rune) {
	w.SafeString("partial")
	w.UnsafeString(p.s)
	panic(redact.Safe("sfboom"))
}

type inner struct {
	A interface{}
	b interface{}
}

type ptrStruct struct {
	Name string
	N    int
}

// ---- sentinels: content of leaves per instantiation

// (the two instantiations of a word have their line feeds at the same positions, as C02 requires)
var unsafeWords = [2][]string{
	{"qzalpha", "qzbra\nvo", "qzcharlie‹x", "qzd", "", "qz e cho", "qzfox›trot", "qzgulf‹\nmike", "qzp\n‹\nq", "qzsierra›\n", "\nqzu"},
	{"wkgolfing", "wkhot\nelx", "wkindia›‹", "wkjuliet!", "", "wk k ilo", "wklima‹zz", "wknovv›\noscar‹", "wkr\n›\nss", "wktangoo‹\n", "\nwkvictorwhiskeyx"},
}

func unsafeStr(id, inst int) string {
	w := unsafeWords[inst][id%len(unsafeWords[inst])]
	if w == "" {
		return w
	}
	// unique per leaf id, so that a sentinel found in the output identifies its leaf
	return w[:2] + string(rune('A'+id%26)) + string(rune('a'+(id/26)%26)) + w[2:]
}
func unsafeInt(id, inst int) int {
	if inst == 0 {
		return 48211 + id*13
	}
	return 9035077 + id*101
}
func safeStr(id int) string { return fmt.Sprintf("sfok%dz", id) }
func safeInt(id int) int    { return 3100 + id }

var theChan = make(chan int)
var theFunc = func() {}
var intCell = 5

// Build constructs the Go value. pool supplies redactable strings.
func (v *Val) Build(inst int) interface{} {
	switch v.K {
	case KErr, KPStringer:
		// pointer-shaped values: one object per (kind, id, inst) so that an
		// address printed as public data is the same in both instantiations
		k := [3]int{int(v.K), v.ID, inst}
		cacheMu.Lock()
		defer cacheMu.Unlock()
		if x, ok := objCache[k]; ok {
			return x
		}
		x := v.build(inst)
		objCache[k] = x
		return x
	}
	return v.build(inst)
}

var objCache = map[[3]int]interface{}{}
var cacheMu sync.Mutex

func (v *Val) build(inst int) interface{} {
	switch v.K {
	case KNil:
		return nil
	case KBool:
		return (v.ID+inst)%2 == 0
	case KInt:
		return unsafeInt(v.ID, inst)
	case KInt8:
		return int8(-(unsafeInt(v.ID, inst) % 100))
	case KRune:
		// both instantiations are single characters without a line feed (same shape); one of them a marker
		return [][2]rune{{'‹', 'x'}, {'y', '›'}, {'›', '‹'}, {'é', 'z'}, {0x2039, 0x203A}}[v.ID%5][inst%2]
	case KUint16:
		return uint16(unsafeInt(v.ID, inst) % 60000)
	case KUint64:
		return uint64(unsafeInt(v.ID, inst)) * 1000003
	case KUintptr:
		return uintptr(unsafeInt(v.ID, inst))
	case KFloat:
		// not-a-number and infinities take fmt's special padding path (the '0' flag is suspended)
		switch v.ID % 11 {
		case 5:
			return math.NaN()
		case 7:
			return math.Inf(-1)
		}
		return float64(unsafeInt(v.ID, inst)) / 8
	case KComplex:
		if v.ID%11 == 5 {
			return complex(math.NaN(), float64(unsafeInt(v.ID, inst)))
		}
		return complex(float64(unsafeInt(v.ID, inst)), -1.5)
	case KString:
		return unsafeStr(v.ID, inst)
	case KBytes:
		// the length of a byte slice is part of its shape (it is printed element-wise under some verbs)
		return sameShapeBytes(unsafeStr(v.ID, 0), inst)
	case KNamedStr:
		return MyStr(unsafeStr(v.ID, inst))
	case KNamedInt:
		return MyInt(unsafeInt(v.ID, inst))
	case KSafeStr:
		return SafeStr(safeStr(v.ID))
	case KSafeInt:
		return redact.SafeInt(safeInt(v.ID))
	case KRegInt:
		return RegInt(unsafeInt(v.ID, inst))
	case KRegStruct:
		return RegStruct{unsafeStr(v.ID, inst), unsafeInt(v.ID, inst)}
	case KErr:
		return errors.New(unsafeStr(v.ID, inst))
	case KStringer:
		return strg{unsafeStr(v.ID, inst)}
	case KPStringer:
		return &pstrg{unsafeStr(v.ID, inst)}
	case KNilStringer:
		return (*pstrg)(nil)
	case KGoStringer:
		return gostrg{unsafeStr(v.ID, inst)}
	case KFormatter:
		return fmtr{unsafeStr(v.ID, inst)}
	case KSafeFormatter:
		return safeFmtr{safeStr(v.ID), unsafeStr(v.ID, inst)}
	case KSafeMessager:
		return safeMsgr{safeStr(v.ID), unsafeStr(v.ID, inst)}
	case KErrFormatter:
		return errFmtr{unsafeStr(v.ID, inst)}
	case KErrStringer:
		return errStrg{unsafeStr(v.ID, inst)}
	case KPanicStringer:
		return panicStrg{unsafeStr(v.ID, inst)}
	case KPanicError:
		return panicErr{unsafeStr(v.ID, inst)}
	case KPanicSafeFormatter:
		return panicSF{unsafeStr(v.ID, inst)}
	case KPtrStruct:
		return ptrFor(v.ID, inst)
	case KPtrRegStruct:
		return &RegStruct{unsafeStr(v.ID, inst), unsafeInt(v.ID, inst)}
	case KNilPtr:
		return (*ptrStruct)(nil)
	case KIntPtr:
		return &intCell
	case KReflectValue:
		if len(v.Kids[0].Kids)%2 == 0 && v.Kids[0].K != KNil {
			// a reflect.Value of Kind Interface (the operand of fmt is then printed one level down: a pointer inside
			// shows as an address, not as &{…})
			var box interface{} = v.Kids[0].Build(inst)
			return reflect.ValueOf(&box).Elem()
		}
		return reflect.ValueOf(v.Kids[0].Build(inst))
	case KSafe:
		// content under Safe() is public: both instantiations share it (the very same objects, addresses included)
		if v.cached == nil {
			v.cached = v.Kids[0].Build(0)
		}
		return redact.Safe(v.cached)
	case KUnsafe:
		return redact.Unsafe(v.Kids[0].Build(inst))
	case KSlice:
		s := make([]interface{}, len(v.Kids))
		for i, k := range v.Kids {
			s[i] = k.Build(inst)
		}
		return s
	case KStrSlice:
		return []string{unsafeStr(v.ID, inst), unsafeStr(v.ID+1, inst)}
	case KIntArr:
		return [2]int{unsafeInt(v.ID, inst), unsafeInt(v.ID+1, inst)}
	case KMap:
		m := map[string]interface{}{}
		for i, k := range v.Kids {
			m[fmt.Sprintf("key%d", i)] = k.Build(inst)
		}
		return m
	case KMapKeyed:
		// keys keep their relative order in both instantiations
		return map[MyStr]int{MyStr("a" + unsafeStr(v.ID, inst)): 1, MyStr("b" + unsafeStr(v.ID+1, inst)): unsafeInt(v.ID, inst)}
	case KStruct:
		in := inner{}
		if len(v.Kids) > 0 {
			in.A = v.Kids[0].Build(inst)
		}
		if len(v.Kids) > 1 {
			in.b = v.Kids[1].Build(inst)
		}
		return in
	case KRedactable:
		return redact.RedactableString(v.R)
	case KRedactableB:
		return redact.RedactableBytes(v.R)
	case KChan:
		return theChan
	case KFunc:
		return theFunc
	case KByteArr:
		s := sameShapeBytes(unsafeStr(v.ID, 0)+"xyz", inst)
		return [3]byte{s[0], s[1], s[2]}
	case KDuration:
		return dur(unsafeInt(v.ID, inst))
	case KSafeStringer:
		return safeStrg{safeStr(v.ID)}
	case KFormatterWS:
		return fmtrWS{unsafeStr(v.ID, inst)}
	case KNilMapStringer:
		return nilMapStr(nil)
	case KNilSliceError:
		return nilSliceErr(nil)
	case KNilFuncStringer:
		return nilFuncStr(nil)
	case KMapSortKeys:
		return sortKeyMap(v.ID, inst)
	case KPanicRuntime:
		return enumStrg(unsafeInt(v.ID, inst))
	case KSafeBytes:
		// one object per id: its address (%p) is public data shared by both instantiations
		cacheMu.Lock()
		defer cacheMu.Unlock()
		k := [3]int{int(KSafeBytes), v.ID, 0}
		if x, ok := objCache[k]; ok {
			return x
		}
		x := safeBytesT(safeStr(v.ID))
		objCache[k] = x
		return x
	case KAnonEmbedSafe:
		x := struct {
			safeTag
			Count int
			Note  string
		}{safeTag{}, safeInt(v.ID), safeStr(v.ID)}
		switch (v.ID / 2) % 3 {
		case 0:
			return x
		case 1:
			return []struct {
				safeTag
				Count int
				Note  string
			}{x}
		}
		return struct {
			F struct {
				safeTag
				Count int
				Note  string
			}
		}{x}
	case KSafeNilMap:
		if (v.ID/2)%2 == 0 {
			return safeMapT(nil)
		}
		return safeSliceT(nil)
	case KAnonTagged:
		n := unsafeInt(v.ID, inst)
		switch (v.ID / 2) % 4 {
		case 0:
			return struct {
				A int `note:"›"`
			}{n}
		case 1:
			return struct {
				A int    `k:"‹x›"`
				B string `‹`
			}{n, unsafeStr(v.ID, inst)}
		case 2:
			return []struct {
				A int `a›b‹c`
			}{{n}}
		}
		return map[string]struct {
			A int `note:"‹"`
		}{"k": {n}}
	case KMapIfaceKey:
		return map[interface{}]string{nil: unsafeStr(v.ID, inst), 1: "one", "k": unsafeStr(v.ID+1, inst), 2.5: "f", true: "t"}
	case KMapStructKey:
		type key struct {
			N int
			I interface{}
		}
		return map[key]int{{1, nil}: 1, {1, "x"}: unsafeInt(v.ID, inst), {0, 3}: 3, {1, 7}: 4}
	case KBuilder:
		var b redact.StringBuilder
		b.SafeString(redact.SafeString(safeStr(v.ID)))
		b.UnsafeString(unsafeStr(v.ID, inst))
		return &b
	}
	panic("Build: unknown kind")
}

func sameShapeBytes(s string, inst int) []byte {
	b := []byte(s)
	if inst == 1 {
		for i, c := range b {
			if c >= 'a' && c < 'z' {
				b[i] = c + 1
			}
		}
	}
	return b
}

var ptrCache = map[[2]int]*ptrStruct{}
var ptrMu sync.Mutex

// ptrFor returns the same pointer for the same (id, inst), so that an address
// printed as public data is shared by both instantiations.
func ptrFor(id, inst int) *ptrStruct {
	k := [2]int{id, inst}
	ptrMu.Lock()
	defer ptrMu.Unlock()
	if p, ok := ptrCache[k]; ok {
		return p
	}
	p := &ptrStruct{unsafeStr(id, inst), unsafeInt(id, inst)}
	ptrCache[k] = p
	return p
}

type dur int64

func (d dur) String() string { return fmt.Sprintf("%dns", int64(d)) }

// classification helpers

// redactSpecific: rendering differs from fmt by design (C04 excludes these).
func (v *Val) redactSpecific() bool {
	switch v.K {
	case KSafeFormatter, KSafeMessager, KPanicSafeFormatter, KSafe, KUnsafe, KRedactable, KRedactableB, KBuilder:
		return true
	}
	for _, k := range v.Kids {
		if k.redactSpecific() {
			return true
		}
	}
	return false
}

// addressDependent: output contains addresses (never compared byte for byte across calls of different processes, fine within one).
func (v *Val) hasKind(ks ...VKind) bool {
	for _, k := range ks {
		if v.K == k {
			return true
		}
	}
	for _, c := range v.Kids {
		if c.hasKind(ks...) {
			return true
		}
	}
	return false
}

func (v *Val) panics() bool {
	return v.hasKind(KPanicStringer, KPanicError, KPanicSafeFormatter, KNilMapStringer, KNilSliceError, KNilFuncStringer, KPanicRuntime)
}

// ownClass: the value (or a part of it) has a classification of its own.
func (v *Val) ownClass() bool {
	return v.hasKind(KAnonEmbedSafe, KSafeBytes, KSafeNilMap, KSafeStringer, KSafeStr, KSafeInt, KSafeFormatter, KSafeMessager, KPanicSafeFormatter, KSafe, KUnsafe, KRedactable, KRedactableB, KBuilder)
}

var leafKinds = []VKind{KNil, KBool, KInt, KInt8, KUint16, KUint64, KUintptr, KFloat, KComplex, KString, KBytes, KNamedStr, KNamedInt,
	KSafeStr, KSafeInt, KRegInt, KRegStruct, KErr, KStringer, KPStringer, KNilStringer, KGoStringer, KFormatter, KSafeFormatter, KSafeMessager,
	KErrFormatter, KErrStringer, KPanicStringer, KPanicError, KPanicSafeFormatter, KPtrStruct, KPtrRegStruct, KNilPtr, KIntPtr, KStrSlice, KIntArr, KMapKeyed,
	KRedactable, KRedactableB, KChan, KFunc, KByteArr, KDuration, KBuilder, KSafeStringer, KFormatterWS, KMapIfaceKey, KMapStructKey, KNilMapStringer, KNilSliceError, KNilFuncStringer, KMapSortKeys, KRune, KPanicRuntime, KAnonTagged, KSafeBytes, KSafeNilMap, KAnonEmbedSafe}

var redactPool = []string{"", "plain", "‹x›", "a ‹b› c", "‹a›\n‹b›", "?‹?›", "‹×›", "‹ ›x\n", "pre‹u1›mid‹u2›post", "‹q?z›"}

type GenOpts struct {
	NoRedactSpecific bool
	NoPanics         bool
	NoAddr           bool
	MaxDepth         int
}

func genVal(r *Rng, depth int, o GenOpts, nextID *int) *Val {
	for {
		var v *Val
		c := r.Intn(100)
		switch {
		case depth < o.MaxDepth && c < 8:
			v = &Val{K: KSafe, Kids: []*Val{genVal(r, depth+1, o, nextID)}}
		case depth < o.MaxDepth && c < 16:
			v = &Val{K: KUnsafe, Kids: []*Val{genVal(r, depth+1, o, nextID)}}
		case depth < o.MaxDepth && c < 24:
			n := r.Intn(4)
			v = &Val{K: KSlice}
			for i := 0; i < n; i++ {
				v.Kids = append(v.Kids, genVal(r, depth+1, o, nextID))
			}
		case depth < o.MaxDepth && c < 30:
			n := r.Intn(3)
			v = &Val{K: KMap}
			for i := 0; i < n; i++ {
				v.Kids = append(v.Kids, genVal(r, depth+1, o, nextID))
			}
		case depth < o.MaxDepth && c < 37:
			v = &Val{K: KStruct, Kids: []*Val{genVal(r, depth+1, o, nextID), genVal(r, depth+1, o, nextID)}}
		case depth < o.MaxDepth && c < 40:
			v = &Val{K: KReflectValue, Kids: []*Val{genVal(r, depth+1, o, nextID)}}
		default:
			k := leafKinds[r.Intn(len(leafKinds))]
			v = &Val{K: k, ID: *nextID}
			*nextID += 2
			if k == KRedactable || k == KRedactableB {
				v.R = redactPool[r.Intn(len(redactPool))]
			}
		}
		if o.NoRedactSpecific && v.redactSpecific() {
			continue
		}
		if o.NoPanics && v.panics() {
			continue
		}
		if o.NoAddr && v.hasKind(KChan, KFunc, KIntPtr, KPtrStruct, KPtrRegStruct, KBuilder) {
			continue
		}
		return v
	}
}

func (v *Val) String() string {
	names := map[VKind]string{KNil: "nil", KBool: "bool", KInt: "int", KInt8: "int8", KUint16: "uint16", KUint64: "uint64", KUintptr: "uintptr",
		KFloat: "float", KComplex: "complex", KString: "string", KBytes: "bytes", KNamedStr: "MyStr", KNamedInt: "MyInt", KSafeStr: "SafeStr",
		KSafeInt: "SafeInt", KRegInt: "RegInt", KRegStruct: "RegStruct", KErr: "error", KStringer: "Stringer", KPStringer: "*Stringer",
		KNilStringer: "nil*Stringer", KGoStringer: "GoStringer", KFormatter: "Formatter", KSafeFormatter: "SafeFormatter", KSafeMessager: "SafeMessager",
		KErrFormatter: "errFormatter", KErrStringer: "errStringer", KPanicStringer: "panicStringer", KPanicError: "panicError",
		KPanicSafeFormatter: "panicSafeFormatter", KPtrStruct: "*struct", KPtrRegStruct: "*RegStruct", KNilPtr: "nil*struct", KIntPtr: "*int", KReflectValue: "reflect.Value",
		KSafe: "Safe", KUnsafe: "Unsafe", KSlice: "[]any", KStrSlice: "[]string", KIntArr: "[2]int", KMap: "map", KMapKeyed: "map[MyStr]int",
		KStruct: "struct", KRedactable: "RedactableString", KRedactableB: "RedactableBytes", KChan: "chan", KFunc: "func", KByteArr: "[3]byte",
		KDuration: "dur", KBuilder: "*StringBuilder", KSafeStringer: "SafeStringer", KFormatterWS: "FormatterWS", KMapIfaceKey: "map[any]string", KMapStructKey: "map[struct]int", KMapSortKeys: "map[sortable]string", KRune: "rune", KPanicRuntime: "panicRuntime", KAnonTagged: "anonTagged", KSafeBytes: "safeBytes", KSafeNilMap: "safeNilMap", KAnonEmbedSafe: "anonEmbedSafe", KNilMapStringer: "nilMapStringer", KNilSliceError: "nilSliceError", KNilFuncStringer: "nilFuncStringer"}
	s := names[v.K]
	if v.K == KRedactable || v.K == KRedactableB {
		s += fmt.Sprintf("%q", v.R)
	} else if len(v.Kids) == 0 {
		s += fmt.Sprintf("#%d", v.ID)
	}
	if len(v.Kids) > 0 {
		var ks []string
		for _, k := range v.Kids {
			ks = append(ks, k.String())
		}
		s += "(" + strings.Join(ks, ",") + ")"
	}
	return s
}

// ---- formats

var verbs = []string{"v", "+v", "#v", "s", "d", "x", "X", "q", "t", "T", "p", "c", "U", "#U", "#q", "e", "f", "g", "b", "o", "O", "w", "z", "!", "世"}

func genDirective(r *Rng) string {
	var sb strings.Builder
	sb.WriteByte('%')
	vb := verbs[r.Intn(len(verbs))]
	if vb[0] == '+' || vb[0] == '#' {
		// "+v" / "#v": the flag belongs in front of width and precision
		sb.WriteByte(vb[0])
		vb = vb[1:]
	}
	for _, f := range "+-# 0" {
		if r.Chance(12) {
			sb.WriteRune(f)
		}
	}
	if r.Chance(25) {
		// 20 and 30 exceed every rendering of the unsafe words, so that padding is really written
		sb.WriteString([]string{"0", "1", "7", "12", "20", "30"}[r.Intn(6)])
	}
	if r.Chance(20) {
		sb.WriteString([]string{".0", ".1", ".5", "."}[r.Intn(4)])
	}
	sb.WriteString(vb)
	return sb.String()
}

// genFormat: a printf format for n operands; mostly valid, sometimes malformed.
func genFormat(r *Rng, n int, allowW bool) string {
	var sb strings.Builder
	lits := []string{"", "lit ", "a=", " ‹", "›", "\n", "100%% ", "x"}
	for i := 0; i < n; i++ {
		sb.WriteString(lits[r.Intn(len(lits))])
		d := genDirective(r)
		if !allowW {
			for strings.HasSuffix(d, "w") {
				d = genDirective(r)
			}
		}
		sb.WriteString(d)
	}
	sb.WriteString(lits[r.Intn(len(lits))])
	if r.Chance(8) {
		sb.WriteString([]string{"%", "%!", "%[1]v", "%[9]d", "%*d", "%.*f", "%[2]*[1]d", "%-", "%1", "%[", "%[x]d", "%v", "%[0]d", "%[0]*d", "%.[0]*d", "%[1000001]d", "%[18446744073709551616]v", "%[-1]d", "%[1]*[0]d"}[r.Intn(19)])
	}
	return sb.String()
}

// sortKeyMap: maps with keys of every kind internal/rfmt/fmtsort orders, values unsafe strings.
func sortKeyMap(id, inst int) interface{} {
	u := func(k int) string { return unsafeStr(id+k%2, inst) } // a leaf owns two ids
	switch (id / 2) % 14 { // (leaf ids are even: a leaf owns two)
	case 9:
		// one entry whose unsafe key is not equal to itself in one instantiation only, value declared safe
		return map[float64]redact.SafeString{[]float64{math.NaN(), 1.5}[inst%2]: "pubval"}
	case 10:
		return map[interface{}]interface{}{[]interface{}{float32(math.NaN()), float32(1.5)}[inst%2]: redact.SafeString("pubval2")}
	case 11:
		type nk struct {
			F float64
			S string
		}
		return map[nk]redact.SafeInt{nk{[]float64{math.NaN(), 2}[inst%2], "s"}: 77}
	case 0:
		return map[uint64]string{1: u(0), 42: u(1), math.MaxUint64: u(2), 1 << 63: u(3), 1<<63 - 1: u(4)}
	case 1:
		// two signed keys in the same relative order in both instantiations, but more than MaxInt64 apart in one of
		// them (a comparison by subtraction wraps); the smaller key's value is declared safe
		lo := []int64{math.MinInt64, -3}[inst%2]
		hi := []int64{5, 7}[inst%2]
		return map[int64]interface{}{lo: redact.SafeString("first"), hi: u(0)}
	case 12:
		return map[int8]string{-128: u(0), -1: u(1), 0: u(2), 127: u(3)}
	case 2:
		return map[float64]string{math.NaN(): u(0), math.Inf(-1): u(1), -1.5: u(2), 0: u(3), math.Inf(1): u(4)}
	case 3:
		return map[int]string{math.MinInt64: u(0), -1: u(1), math.MaxInt64: u(2), 1: u(3), math.MinInt64 + 1: u(4)}
	case 13:
		return map[bool]string{true: u(0), false: u(1)}
	case 4:
		return map[[2]int]string{{1, 2}: u(0), {1, -2}: u(1), {0, 9}: u(2)}
	case 5:
		return map[complex128]string{complex(1, 2): u(0), complex(1, -2): u(1), complex(-1, 0): u(2)}
	case 6:
		return map[uintptr]string{^uintptr(0): u(0), 7: u(1), 1 << 40: u(2)}
	case 7:
		return map[uint8]string{255: u(0), 128: u(1), 127: u(2), 0: u(3)}
	default:
		return map[interface{}]string{uint64(math.MaxUint64): u(0), uint64(3): u(1), int64(-5): u(2), "s": u(3), 2.5: u(4)}
	}
}
