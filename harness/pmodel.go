package main

import (
	"errors"
	"fmt"
	"io"
	"os"
	"reflect"
	"strings"

	"github.com/cockroachdb/redact"
)

// The model-compatible value universe (mirrors Lean's `Val`, Model/Printer.lean):
// every value is built as a Go value AND serialised for the driver, and every
// basic leaf is registered in an oracle table that instantiates the model's
// `render` with Go's own fmt.

type mkind int

const (
	mNil mkind = iota
	mLeaf
	mSafe
	mUnsafe
	mRedactable
	mMeth
	mSlice
	mMap
	mStruct
	mPtr
)

type sop struct {
	tag  string // ss us sr wr pr pf pa
	p    string
	n    int
	args []*mval
	pay  *mval
}

type mval struct {
	k      mkind
	leaf   int // leaf template index (see leafTemplates) or meth template
	id     int // oracle id of the leaf / of the method's returned string
	kids   []*mval
	keys   []*mval
	script []sop
	red    string
	asB    bool // redactable as bytes
	iface  bool // slice elem type is interface{}
	names  []string
	goVal  interface{}
}

type oracleLeaf struct {
	id  int
	val interface{}
}

type mctx struct {
	payDepth int
	r        *Rng
	leaves   []oracleLeaf
	nextID   int
	cfg      regCfg

	illFormed bool
}

func (c *mctx) newLeaf(v interface{}) int {
	id := c.nextID
	c.nextID++
	c.leaves = append(c.leaves, oracleLeaf{id, v})
	return id
}

// ---- Go types with scripted methods

func runSops(w interface{}, ops []sop) {
	sp, _ := w.(redact.SafePrinter)
	for _, o := range ops {
		switch o.tag {
		case "ss":
			sp.SafeString(redact.SafeString(o.p))
		case "us":
			sp.UnsafeString(o.p)
		case "sr":
			sp.SafeRune(redact.SafeRune(o.n))
		case "wr":
			if o.n == 1 {
				io.WriteString(w.(io.Writer), o.p)
			} else {
				w.(io.Writer).Write([]byte(o.p))
			}
		case "pr":
			sp.Print(goArgs(o.args)...)
		case "pf":
			sp.Printf(o.p, goArgs(o.args)...)
		case "ip":
			// an unrelated print call in the middle of the method: its own printer from the pool
			_ = redact.Sprintf("%d|%s", 123456789, "independent-independent-independent")
		case "pa":
			panic(o.pay.goVal)
		}
	}
}

func goArgs(vs []*mval) []interface{} {
	a := make([]interface{}, len(vs))
	for i, v := range vs {
		a[i] = v.goVal
	}
	return a
}

type mStringer struct{ s string }

func (m mStringer) String() string { return "S:" + m.s }

type mErr struct{ s string }

func (m mErr) Error() string { return "E:" + m.s }

type mErrStringer struct{ s string }

func (m mErrStringer) Error() string  { return "E:" + m.s }
func (m mErrStringer) String() string { return "S:" + m.s }

type mGoStringer struct{ s string }

func (m mGoStringer) GoString() string { return "G:" + m.s }

type mSafeMsg struct{ s string }

func (m mSafeMsg) SafeMessage() string { return "M:" + m.s }

type mSafeStringer struct{ s string }

func (m mSafeStringer) SafeValue()     {}
func (m mSafeStringer) String() string { return "SS:" + m.s }

// scripts live in a table so that the scripted types have plain fields only
var scriptTable = map[int][]sop{}
var scriptNext int

func newScript(ops []sop) int {
	scriptNext++
	if len(scriptTable) > 100000 {
		scriptTable = map[int][]sop{}
	}
	scriptTable[scriptNext] = ops
	return scriptNext
}

type mFormatter struct {
	s string
	k int
}

func (m mFormatter) Format(st fmt.State, verb rune) { runSops(st, scriptTable[m.k]) }

type mSafeFormatter struct {
	s string
	k int
}

func (m mSafeFormatter) SafeFormat(sp redact.SafePrinter, verb rune) { runSops(sp, scriptTable[m.k]) }

type mErrFormatter struct {
	s string
	k int
}

func (m mErrFormatter) Error() string                  { return "E:" + m.s }
func (m mErrFormatter) Format(st fmt.State, verb rune) { runSops(st, scriptTable[m.k]) }

type mPanicStringer struct{ pl interface{} }

func (m mPanicStringer) String() string { panic(m.pl) }

type mNilRecv struct{ s string }

func (m *mNilRecv) String() string { return m.s }

type mInner struct {
	A interface{}
	b interface{}
}

type mNamedInts []MyInt

// ---- generation

func tyHex(v interface{}) string { return hx([]byte(reflect.TypeOf(v).String())) }

func (c *mctx) genLeaf() *mval {
	r := c.r
	words := []string{"a", "", "x\ny", "‹m›", "hé", "zz z", "%d"}
	w := words[r.Intn(len(words))]
	n := []int{0, 7, -3, 12, 255, 300, 2000000, 0x2039, 0x203A, 10}[r.Intn(10)]
	var v interface{}
	switch r.Intn(12) {
	case 0:
		v = r.Bool()
	case 1:
		v = n
	case 2:
		v = int8(n % 100)
	case 3:
		v = uint16(uint(n&0xFFFF) % 400)
	case 4:
		v = uint64(uint(n&0xFFFF)%400) * 3
	case 5:
		v = float64(n) / 8
	case 6:
		v = w
	case 7:
		v = MyStr(w)
	case 8:
		v = MyInt(n)
	case 9:
		v = SafeStr(w)
	case 10:
		v = redact.SafeInt(n)
	case 11:
		v = RegInt(n)
	}
	m := &mval{k: mLeaf, goVal: v}
	m.id = c.newLeaf(v)
	return m
}

func (c *mctx) genScript(depth int) []sop {
	r := c.r
	n := r.Intn(4)
	var ops []sop
	for i := 0; i < n; i++ {
		switch r.Intn(7) {
		case 0:
			ops = append(ops, sop{tag: "ss", p: []string{"s‹", "ok", ""}[r.Intn(3)]})
		case 1:
			ops = append(ops, sop{tag: "us", p: []string{"u\n›", "sec", ""}[r.Intn(3)]})
		case 2:
			ops = append(ops, sop{tag: "sr", n: []int{'r', 0x2039, 0xD800}[r.Intn(3)]})
		case 3:
			ops = append(ops, sop{tag: "wr", p: []string{"w‹", "raw\n"}[r.Intn(2)], n: r.Intn(2)})
		case 4:
			if depth < 2 {
				k := r.Intn(3)
				var as []*mval
				for j := 0; j < k; j++ {
					as = append(as, c.gen(depth+1))
				}
				ops = append(ops, sop{tag: "pr", args: as})
			}
		case 5:
			if depth < 2 {
				k := r.Intn(3)
				var as []*mval
				for j := 0; j < k; j++ {
					as = append(as, c.gen(depth+1))
				}
				ops = append(ops, sop{tag: "pf", p: []string{"n:%v|%d", "[%s]", "%v %v", "lit‹", "e:%w", "%w|%v"}[r.Intn(6)], args: as})
			}
		case 6:
			if r.Chance(50) {
				ops = append(ops, sop{tag: "ip"})
			} else if r.Chance(50) {
				pl := c.genPayload()
				ops = append(ops, sop{tag: "pa", pay: pl})
				return ops
			}
		}
	}
	return ops
}

func (c *mctx) genPayload() *mval {
	switch c.r.Intn(6) {
	case 5:
		// a panic value whose own printing panics: catchPanic re-raises, the panic leaves the
		// printer it happened in (and, inside a nested printer, is caught by the enclosing method)
		if c.payDepth < 2 {
			c.payDepth++
			m := c.genMeth(3, 9)
			c.payDepth--
			return m
		}
		m := &mval{k: mLeaf, goVal: "deep"}
		m.id = c.newLeaf(m.goVal)
		return m
	case 4:
		// a SafeFormatter as panic value that itself prints, through the SafePrinter's
		// Print/Printf, operands whose methods panic again (a nested printer inside catchPanic)
		r := c.r
		inner := c.genMeth(3, 9)
		as := []*mval{inner}
		if r.Bool() {
			as = append([]*mval{c.genLeaf()}, as...)
		}
		var ops []sop
		if r.Bool() {
			ops = append(ops, sop{tag: "ss", p: "rep"})
		}
		if r.Bool() {
			ops = append(ops, sop{tag: "pr", args: as})
		} else {
			ops = append(ops, sop{tag: "pf", p: "%v %v", args: as})
		}
		v := mSafeFormatter{"pv", newScript(ops)}
		m := &mval{k: mMeth, leaf: 7}
		m.goVal, m.script = v, ops
		m.id = c.newLeaf("")
		m.kids = []*mval{c.structView2(v, "pv", v.k)}
		return m
	case 0:
		m := &mval{k: mLeaf, goVal: "boom‹"}
		m.id = c.newLeaf(m.goVal)
		return m
	case 1:
		in := &mval{k: mLeaf, goVal: "safeboom"}
		in.id = c.newLeaf(in.goVal)
		return &mval{k: mSafe, kids: []*mval{in}, goVal: redact.Safe(in.goVal)}
	case 2:
		m := &mval{k: mLeaf, goVal: 42}
		m.id = c.newLeaf(m.goVal)
		return m
	default:
		if c.r.Chance(50) {
			// any method-bearing value, scripted formatters with nested prints included: the
			// payload is printed by catchPanic through ordinary dispatch, while p.panicking is set
			return c.genMeth(1, -1)
		}
		return c.genMeth(3, 1)
	}
}

func (c *mctx) structView(ty interface{}, fieldName string, s string) *mval {
	f := &mval{k: mLeaf, goVal: s}
	f.id = c.newLeaf(s)
	return &mval{k: mStruct, kids: []*mval{f}, names: []string{fieldName + ":0:0"}, goVal: ty}
}

// struct view {s string; k int} of the scripted types
func (c *mctx) structView2(ty interface{}, s string, k int) *mval {
	f := &mval{k: mLeaf, goVal: s}
	f.id = c.newLeaf(s)
	g := &mval{k: mLeaf, goVal: k}
	g.id = c.newLeaf(k)
	return &mval{k: mStruct, kids: []*mval{f, g}, names: []string{"s:0:0", "k:0:0"}, goVal: ty}
}

// genMeth: a value with formatting methods. which<0 = random.
func (c *mctx) genMeth(depth int, which int) *mval {
	r := c.r
	if which < 0 {
		which = r.Intn(11)
	}
	s := []string{"q", "x‹y", "l1\nl2", ""}[r.Intn(4)]
	if which == 1 || which == 2 || which == 8 {
		// error values: unique content, so that the returned error identifies its operand
		s += fmt.Sprintf("#%d", c.nextID)
	}
	m := &mval{k: mMeth, leaf: which}
	switch which {
	case 0:
		v := mStringer{s}
		m.goVal, m.id = v, c.newLeaf(v.String())
		m.kids = []*mval{c.structView(v, "s", s)}
	case 1:
		v := mErr{s}
		m.goVal, m.id = v, c.newLeaf(v.Error())
		m.kids = []*mval{c.structView(v, "s", s)}
	case 2:
		v := mErrStringer{s}
		m.goVal, m.id = v, c.newLeaf(v.Error())
		m.kids = []*mval{c.structView(v, "s", s)}
	case 3:
		v := mGoStringer{s}
		m.goVal, m.id = v, c.newLeaf(v.GoString())
		m.kids = []*mval{c.structView(v, "s", s)}
	case 4:
		v := mSafeMsg{s}
		m.goVal, m.id = v, c.newLeaf(v.SafeMessage())
		m.kids = []*mval{c.structView(v, "s", s)}
	case 5:
		v := mSafeStringer{s}
		m.goVal, m.id = v, c.newLeaf(v.String())
		m.kids = []*mval{c.structView(v, "s", s)}
	case 6:
		ops := c.genScript(depth)
		v := mFormatter{s, newScript(ops)}
		m.goVal, m.script = v, ops
		m.id = c.newLeaf("")
		m.kids = []*mval{c.structView2(v, s, v.k)}
	case 7:
		ops := c.genScript(depth)
		v := mSafeFormatter{s, newScript(ops)}
		m.goVal, m.script = v, ops
		m.id = c.newLeaf("")
		m.kids = []*mval{c.structView2(v, s, v.k)}
	case 8:
		ops := c.genScript(depth)
		v := mErrFormatter{s, newScript(ops)}
		m.goVal, m.script = v, ops
		m.id = c.newLeaf(v.Error())
		m.kids = []*mval{c.structView2(v, s, v.k)}
	case 9:
		pl := c.genPayload()
		v := mPanicStringer{pl.goVal}
		m.goVal = v
		m.script = []sop{{tag: "pa", pay: pl}}
		m.id = c.newLeaf("")
		// reflection view: struct{pl interface{}} with the payload in an unexported interface-typed field
		m.kids = []*mval{{k: mStruct, kids: []*mval{pl}, names: []string{"pl:0:1"}, goVal: v}}
	case 10:
		v := (*mNilRecv)(nil)
		m.goVal = v
		m.id = c.newLeaf("")
		// reflection view: a nil pointer, rendered by fmtPointer (oracle leaf of pointer kind)
		pv := &mval{k: mLeaf, goVal: v}
		// the oracle renders a nil pointer of a method-less type (fmt would call String on *mNilRecv)
		pv.id = c.newLeaf((*ptrStruct)(nil))
		m.kids = []*mval{pv}
	}
	return m
}

func (c *mctx) gen(depth int) *mval {
	r := c.r
	x := r.Intn(100)
	switch {
	case depth < 3 && x < 8:
		in := c.gen(depth + 1)
		return &mval{k: mSafe, kids: []*mval{in}, goVal: redact.Safe(in.goVal)}
	case depth < 3 && x < 16:
		in := c.gen(depth + 1)
		return &mval{k: mUnsafe, kids: []*mval{in}, goVal: redact.Unsafe(in.goVal)}
	case x < 22:
		s := redactPool[r.Intn(len(redactPool))]
		if r.Chance(6) {
			// a hand-made, ill-formed "redactable" (documented misuse): the model mirrors what the code
			// does with it; the well-formedness oracle is not applied to such cases
			s = []string{"›", "‹", "a›", "›‹", "‹\n›"}[r.Intn(5)]
			c.illFormed = true
		}
		if r.Bool() {
			return &mval{k: mRedactable, red: s, asB: true, goVal: redact.RedactableBytes(s)}
		}
		return &mval{k: mRedactable, red: s, goVal: redact.RedactableString(s)}
	case x < 26:
		return &mval{k: mNil}
	case x < 42:
		return c.genMeth(depth, -1)
	case depth < 3 && x < 50:
		n := r.Intn(3)
		m := &mval{k: mSlice, iface: true}
		s := make([]interface{}, n)
		for i := 0; i < n; i++ {
			k := c.genSlotVal(depth + 1)
			m.kids = append(m.kids, k)
			s[i] = k.goVal
		}
		m.goVal = s
		return m
	case depth < 3 && x < 54:
		// typed slice of leaves
		m := &mval{k: mSlice, iface: false}
		s := mNamedInts{MyInt(r.Intn(9)), MyInt(100 + r.Intn(9))}
		for _, e := range s {
			l := &mval{k: mLeaf, goVal: e}
			l.id = c.newLeaf(e)
			m.kids = append(m.kids, l)
		}
		m.goVal = s
		return m
	case depth < 3 && x < 60:
		n := r.Intn(3)
		m := &mval{k: mMap}
		mp := map[string]interface{}{}
		for i := 0; i < n; i++ {
			key := fmt.Sprintf("k%d", i)
			kl := &mval{k: mLeaf, goVal: key}
			kl.id = c.newLeaf(key)
			v := c.genSlotVal(depth + 1)
			m.keys = append(m.keys, kl)
			m.kids = append(m.kids, v)
			mp[key] = v.goVal
		}
		m.goVal = mp
		return m
	case depth < 3 && x < 63:
		// a struct of a registrable type, by value or behind a pointer (the registry matches
		// exact types: *T is looked up as T only when the pointee is printed)
		sa, ib := []string{"ra", "r‹b", ""}[r.Intn(3)], r.Intn(50)
		la := &mval{k: mLeaf, goVal: sa}
		la.id = c.newLeaf(sa)
		lb := &mval{k: mLeaf, goVal: ib}
		lb.id = c.newLeaf(ib)
		in := RegStruct{sa, ib}
		m := &mval{k: mStruct, kids: []*mval{la, lb}, names: []string{"A:1:0", "B:1:0"}, goVal: in}
		if r.Chance(50) {
			return &mval{k: mPtr, kids: []*mval{m}, goVal: &in}
		}
		return m
	case depth < 3 && x < 68:
		a, b := c.genSlotVal(depth+1), c.genSlotVal(depth+1)
		in := mInner{A: a.goVal, b: b.goVal}
		m := &mval{k: mStruct, kids: []*mval{a, b}, names: []string{"A:1:1", "b:0:1"}}
		if r.Chance(25) {
			m.goVal = in
			return &mval{k: mPtr, kids: []*mval{{k: mStruct, kids: m.kids, names: m.names, goVal: in}}, goVal: &in}
		}
		m.goVal = in
		return m
	default:
		return c.genLeaf()
	}
}

// values the model supports in container slots (wrappers in interface-typed
// slots go through fmt itself and are not modelled)
func (c *mctx) genSlotVal(depth int) *mval {
	for {
		v := c.gen(depth)
		if v.k == mSafe || v.k == mUnsafe || v.k == mPtr {
			continue
		}
		return v
	}
}

// ---- serialisation

func (c *mctx) isReg(v interface{}) bool { return v != nil && isRegistered(c.cfg, v) }

func hasSafeValue(v interface{}) bool {
	_, ok := v.(redact.SafeValue)
	return ok
}

func (c *mctx) ser(v *mval, sb *strings.Builder) {
	w := func(s string) { sb.WriteString(s); sb.WriteByte(' ') }
	switch v.k {
	case mNil:
		w("N")
	case mLeaf:
		rv := reflect.ValueOf(v.goVal)
		k, iv := "s", "-"
		switch rv.Kind() {
		case reflect.Bool:
			k = "b"
		case reflect.Int, reflect.Int8, reflect.Int16, reflect.Int32, reflect.Int64:
			k, iv = "i", fmt.Sprint(rv.Int())
		case reflect.Uint, reflect.Uint8, reflect.Uint16, reflect.Uint32, reflect.Uint64:
			k = "u"
			if rv.Uint() < 1<<62 {
				iv = fmt.Sprint(rv.Uint())
			}
		case reflect.Float64, reflect.Float32:
			k = "f"
		case reflect.Ptr:
			k = "p"
		}
		w("L")
		w(fmt.Sprint(v.id))
		w(k)
		w(tyHex(v.goVal))
		w(iv)
		w(b01(hasSafeValue(v.goVal)))
		w(b01(c.isReg(v.goVal)))
	case mSafe:
		w("S")
		c.ser(v.kids[0], sb)
	case mUnsafe:
		w("U")
		c.ser(v.kids[0], sb)
	case mRedactable:
		w("R")
		w(hx([]byte(v.red)))
		w(tyHex(v.goVal))
	case mMeth:
		ms := [6]bool{}
		_, ms[0] = v.goVal.(redact.SafeFormatter)
		_, ms[1] = v.goVal.(redact.SafeMessager)
		_, ms[2] = v.goVal.(error)
		_, ms[3] = v.goVal.(fmt.Formatter)
		_, ms[4] = v.goVal.(fmt.GoStringer)
		_, ms[5] = v.goVal.(fmt.Stringer)
		bits := ""
		for _, b := range ms {
			bits += b01(b)
		}
		w("M")
		w(bits)
		w(tyHex(v.goVal))
		w(b01(hasSafeValue(v.goVal)))
		w(b01(c.isReg(v.goVal)))
		w(b01(v.leaf == 10))
		w(fmt.Sprint(v.id))
		c.serScript(v.script, sb)
		c.ser(v.kids[0], sb)
	case mSlice:
		w("A")
		w(tyHex(v.goVal))
		w("0")
		w(b01(v.iface))
		w(fmt.Sprint(len(v.kids)))
		for _, k := range v.kids {
			c.ser(k, sb)
		}
	case mMap:
		w("P")
		w(tyHex(v.goVal))
		w("0")
		w("0")
		w("1")
		w(fmt.Sprint(len(v.kids)))
		for _, k := range v.keys {
			c.ser(k, sb)
		}
		for _, k := range v.kids {
			c.ser(k, sb)
		}
	case mStruct:
		w("T")
		w(tyHex(v.goVal))
		w(b01(c.isReg(v.goVal)))
		w(fmt.Sprint(len(v.kids)))
		for i, k := range v.kids {
			parts := strings.Split(v.names[i], ":")
			w(hx([]byte(parts[0])))
			w(parts[1])
			w(parts[2])
			c.ser(k, sb)
		}
	case mPtr:
		w("Q")
		w(tyHex(v.goVal))
		c.ser(v.kids[0], sb)
	}
}

func (c *mctx) serScript(ops []sop, sb *strings.Builder) {
	w := func(s string) { sb.WriteString(s); sb.WriteByte(' ') }
	for _, o := range ops {
		switch o.tag {
		case "ss", "us", "wr":
			w(o.tag)
			w(hx([]byte(o.p)))
		case "sr":
			w("sr")
			w(fmt.Sprint(o.n))
		case "pr":
			w("pr")
			w(fmt.Sprint(len(o.args)))
			for _, a := range o.args {
				c.ser(a, sb)
			}
		case "pf":
			w("pf")
			w(hx([]byte(o.p)))
			w(fmt.Sprint(len(o.args)))
			for _, a := range o.args {
				c.ser(a, sb)
			}
		case "ip":
			w("ip")
		case "pa":
			w("pa")
			c.ser(o.pay, sb)
			return
		}
	}
	w("d")
}

// ---- oracle table

type pstate struct {
	flags [5]bool // + - # space 0
	w, p  int
	wok   bool
	pok   bool
	verb  rune
}

func (s pstate) dir() string {
	var sb strings.Builder
	sb.WriteByte('%')
	for i, c := range "+-# 0" {
		if s.flags[i] {
			sb.WriteRune(c)
		}
	}
	if s.wok {
		sb.WriteString(fmt.Sprint(s.w))
	}
	if s.pok {
		sb.WriteByte('.')
		sb.WriteString(fmt.Sprint(s.p))
	}
	sb.WriteRune(s.verb)
	return sb.String()
}

var probeStates []pstate

type probeInt int

func (p probeInt) Format(st fmt.State, verb rune) {
	var s pstate
	for i, c := range "+-# 0" {
		s.flags[i] = st.Flag(int(c))
	}
	s.w, s.wok = st.Width()
	s.p, s.pok = st.Precision()
	s.verb = verb
	probeStates = append(probeStates, s)
}

// candidateDirs: the directives under which leaves of this case may be rendered.
func candidateDirs(format string, args []*mval, isPrintf bool) []string {
	set := map[string]bool{"%v": true, "%s": true, "%d": true}
	if isPrintf {
		probeStates = probeStates[:0]
		pargs := make([]interface{}, len(args))
		for i, a := range args {
			pargs[i] = probeInt(0)
			if a.k == mLeaf {
				rv := reflect.ValueOf(a.goVal)
				switch rv.Kind() {
				case reflect.Int, reflect.Int8, reflect.Int16, reflect.Int32, reflect.Int64:
					pargs[i] = probeInt(rv.Int())
				case reflect.Uint, reflect.Uint8, reflect.Uint16, reflect.Uint32, reflect.Uint64:
					if rv.Uint() < 1<<40 {
						pargs[i] = probeInt(rv.Uint())
					}
				}
			}
		}
		safely(func() { _ = fmt.Sprintf(format, pargs...) })
		for _, s := range probeStates {
			set[s.dir()] = true
			v := s
			v.verb = 'v'
			set[v.dir()] = true
			// GoString is written with fmtS under the width/precision of a %#v directive
			g := s
			g.verb = 's'
			g.flags[0], g.flags[2] = false, false
			set[g.dir()] = true
		}
	}
	var r []string
	for d := range set {
		r = append(r, d)
	}
	return r
}

func (c *mctx) table(dirs []string) string {
	var sb strings.Builder
	for _, l := range c.leaves {
		for _, d := range dirs {
			var out string
			pm := safely(func() { out = fmt.Sprintf(d, l.val) })
			if pm != "" {
				continue
			}
			fmt.Fprintf(&sb, "%d %s %s ", l.id, hx([]byte(d)), hx([]byte(out)))
		}
	}
	return sb.String()
}

// ---- the stream

func genMFormat(r *Rng, n int, allowW bool) string {
	var sb strings.Builder
	lits := []string{"", "lit ", "a=", " ‹", "›", "\n", "100%% ", "x"}
	mverbs := []string{"v", "v", "v", "s", "d", "x", "q", "t", "T", "c", "U", "e", "g", "b", "o", "z", "!", "世", "X"}
	if allowW {
		mverbs = append(mverbs, "w", "w", "w")
	}
	for i := 0; i < n; i++ {
		sb.WriteString(lits[r.Intn(len(lits))])
		sb.WriteByte('%')
		for _, f := range "+-# 0" {
			if r.Chance(10) {
				sb.WriteRune(f)
			}
		}
		if r.Chance(12) {
			// argument indexes are 1-based: 0, n+1 and beyond are errors the parser must report
			sb.WriteString(fmt.Sprintf("[%d]", []int{r.Intn(n + 2), 1 + r.Intn(n+1), 1 + r.Intn(n+1), 9}[r.Intn(4)]))
		}
		if r.Chance(20) {
			sb.WriteString([]string{"1", "7", "12", "*"}[r.Intn(4)])
		}
		if r.Chance(15) {
			sb.WriteString([]string{".0", ".2", ".", ".*"}[r.Intn(4)])
		}
		sb.WriteString(mverbs[r.Intn(len(mverbs))])
	}
	sb.WriteString(lits[r.Intn(len(lits))])
	if r.Chance(8) {
		sb.WriteString([]string{"%", "%!", "%[1]v", "%[9]d", "%-", "%1", "%[", "%[x]d", "%v", "%[2]*[1]d", "%.[1]*d", "%[0]d", "%[0]*d", "%.[0]*d", "%[1000001]d", "%[1]*[0]d"}[r.Intn(16)])
	}
	return sb.String()
}

// printerModelCase builds one case, runs the real code, and emits the line for the model.
func printerModelCase(r *Rng, route string, emit func(Case)) {
	cfg := regCfg(0)
	if r.Chance(30) {
		cfg = regCfg(r.Intn(16))
	}
	cfg.apply()
	hook := r.Chance(25)
	if hook {
		redact.RegisterRedactErrorFn(testHook)
	} else {
		redact.RegisterRedactErrorFn(nil)
	}
	c := &mctx{r: r, cfg: cfg}
	n := r.Intn(4)
	var args []*mval
	for i := 0; i < n; i++ {
		args = append(args, c.gen(0))
	}
	format := ""
	if route != "sprint" {
		format = genMFormat(r, n, route == "errorf" || r.Chance(30))
		if excludedDirective(strings.ReplaceAll(format, "w", "v")) {
			format = "%v"
		}
	}
	gargs := goArgs(args)
	if tr := os.Getenv("VERIF_PM_TRACE"); tr != "" {
		var tb strings.Builder
		for _, a := range args {
			c.ser(a, &tb)
		}
		os.WriteFile(tr, []byte(route+" "+format+" | "+tb.String()), 0644)
	}
	var out redact.RedactableString
	var werr error
	pm := safely(func() {
		switch route {
		case "sprint":
			out = redact.Sprint(gargs...)
		case "sprintf":
			out = redact.Sprintf(format, gargs...)
		case "errorf":
			out, werr = redact.HelperForErrorf(format, gargs...)
		}
	})
	real := "ok " + hx([]byte(out))
	if route == "errorf" {
		// identify the wrapped error by the oracle id of its Error() text
		id := "-"
		if werr != nil {
			for _, a := range allMeths(args) {
				if e, ok := a.goVal.(error); ok && reflect.TypeOf(a.goVal).Comparable() && e == werr {
					id = fmt.Sprint(a.id)
				}
			}
		}
		real += " " + id
	}
	if pm != "" {
		real = "panic"
	}
	var sb strings.Builder
	sb.WriteString("pr " + route + " " + b01(hook) + " " + hx([]byte(format)) + " " + fmt.Sprint(len(args)) + " ")
	for _, a := range args {
		c.ser(a, &sb)
	}
	sb.WriteString("| ")
	sb.WriteString(c.table(candidateDirs(format, args, route != "sprint")))
	var orc []string
	if pm == "" && !c.illFormed {
		if e := wflErr([]byte(out)); e != "" {
			orc = append(orc, wfTag(e)+"printer output not well-formed/line-safe: "+e)
		}
	}
	if dp := os.Getenv("VERIF_PM_DUMP"); dp != "" {
		f, _ := os.OpenFile(dp, os.O_APPEND|os.O_CREATE|os.O_WRONLY, 0644)
		f.WriteString(strings.TrimRight(sb.String(), " ") + "\n")
		f.Close()
	}
	emit(Case{Line: strings.TrimRight(sb.String(), " "), Real: real, Oracle: orc, Nontriv: hasMarker([]byte(out)), Kind: route})
}

func allMeths(vs []*mval) []*mval {
	var r []*mval
	var walk func(v *mval)
	walk = func(v *mval) {
		if v == nil {
			return
		}
		if v.k == mMeth {
			r = append(r, v)
		}
		for _, k := range v.kids {
			walk(k)
		}
		for _, k := range v.keys {
			walk(k)
		}
		for _, o := range v.script {
			for _, a := range o.args {
				walk(a)
			}
			walk(o.pay)
		}
	}
	for _, v := range vs {
		walk(v)
	}
	return r
}

var _ = errors.New

// fmtCompat: the value (with everything reachable from it: container slots, method scripts, panic
// payloads) can be printed by Go's own fmt and has no redact-specific rendering: no Safe/Unsafe
// wrappers, no RedactableString/Bytes, no SafeFormatter/SafeMessager; Format methods only use the
// io.Writer side of their fmt.State.
func fmtCompat(v *mval) bool {
	if v == nil {
		return true
	}
	switch v.k {
	case mSafe, mUnsafe, mRedactable:
		return false
	case mMeth:
		if v.leaf == 4 || v.leaf == 7 {
			return false
		}
	}
	for _, o := range v.script {
		switch o.tag {
		case "wr", "ip":
		case "pa":
			if !fmtCompat(o.pay) {
				return false
			}
		default:
			return false
		}
	}
	for _, k := range v.kids {
		if !fmtCompat(k) {
			return false
		}
	}
	for _, k := range v.keys {
		if !fmtCompat(k) {
			return false
		}
	}
	return true
}

// printerPlainCase: the model's unclassified run (C04's reference text: the printer functions
// started under a safe override, where every write is appended verbatim) against Go's own fmt.
func printerPlainCase(r *Rng, route string, emit func(Case)) {
	cfg := regCfg(0)
	if r.Chance(30) {
		cfg = regCfg(r.Intn(16))
	}
	cfg.apply()
	redact.RegisterRedactErrorFn(nil)
	c := &mctx{r: r, cfg: cfg}
	n := r.Intn(4)
	var args []*mval
	for i := 0; i < n; i++ {
		var a *mval
		for try := 0; try < 30; try++ {
			a = c.gen(0)
			if fmtCompat(a) {
				break
			}
			a = nil
		}
		if a == nil {
			a = c.genLeaf()
		}
		args = append(args, a)
	}
	format := ""
	if route != "plain" {
		format = genMFormat(r, n, false)
		if excludedDirective(format) || strings.Contains(format, "w") {
			format = "%v"
		}
	}
	gargs := goArgs(args)
	var out string
	pm := safely(func() {
		if route == "plain" {
			out = fmt.Sprint(gargs...)
		} else {
			out = fmt.Sprintf(format, gargs...)
		}
	})
	real := "ok " + hx([]byte(out))
	if pm != "" {
		real = "panic"
	}
	var sb strings.Builder
	sb.WriteString("pr " + route + " 0 " + hx([]byte(format)) + " " + fmt.Sprint(len(args)) + " ")
	for _, a := range args {
		c.ser(a, &sb)
	}
	sb.WriteString("| ")
	sb.WriteString(c.table(candidateDirs(format, args, route != "plain")))
	emit(Case{Line: strings.TrimRight(sb.String(), " "), Real: real, Nontriv: len(args) > 0, Kind: route})
}

// streamPrinterPlain ties the specification side of C04's theorems to Go's fmt: what the model
// writes when nothing is classified is what fmt.Sprint/Sprintf returns, byte for byte.
func streamPrinterPlain(rep *Report, tier string, seed uint64) {
	n := 30000
	if tier == "thorough" {
		n = 1000000
	}
	if v := os.Getenv("VERIF_PM_N"); v != "" {
		fmt.Sscanf(v, "%d", &n)
	}
	RunStreamFiltered(rep, "P-plain", false, "the model's unclassified run (Props/C04: plainSprint/plainSprintf) vs Go's fmt.Sprint/fmt.Sprintf: random formats (incl. malformed, indexes, *) x fmt-compatible model-universe values (leaves, Stringer/error/GoStringer/Formatter incl. panicking and nil-receiver ones, slices, maps, structs, pointers, SafeValue and registered types)", 1,
		func(sh, ns int, emit func(Case)) {
			r := NewRng(seed*1000 + 5151)
			defer resetRegistry()
			for i := 0; i < n; i++ {
				route := []string{"plain", "plainf", "plainf", "plainf"}[r.Intn(4)]
				printerPlainCase(r, route, emit)
			}
		})
}

func streamPrinterModel(rep *Report, tier string, seed uint64) {
	n := 30000
	if tier == "thorough" {
		n = 1000000
	}
	if v := os.Getenv("VERIF_PM_N"); v != "" {
		fmt.Sscanf(v, "%d", &n)
	}
	// model answers "unsupported"/"fuel" are not disagreements: they are counted separately
	RunStreamFiltered(rep, "P-model", false, "random formats (incl. malformed, indexes, *) x model-universe values (leaves, wrappers, redactables, scripted methods incl. nested Print/Printf and panics, slices, maps, structs, pointers), registry configurations, error hook on/off; Sprint, Sprintf, HelperForErrorf", 1,
		func(sh, ns int, emit func(Case)) {
			r := NewRng(seed*1000 + 4242)
			defer resetRegistry()
			defer redact.RegisterRedactErrorFn(nil)
			for i := 0; i < n; i++ {
				route := []string{"sprint", "sprintf", "sprintf", "sprintf", "errorf"}[r.Intn(5)]
				printerModelCase(r, route, emit)
			}
		})
}
