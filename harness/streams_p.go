package main

import (
	"bytes"
	"errors"
	"fmt"
	"io"
	"math"
	"reflect"
	"strings"

	"github.com/cockroachdb/redact"
)

// Printer-level oracles (P streams): the real code judged directly against
// the properties' own statements, with Go's fmt as reference where the
// property says so.

func rSprintf(f string, args []interface{}) (out []byte, pm string) {
	pm = safely(func() { out = []byte(redact.Sprintf(f, args...)) })
	return
}
func rSprint(args []interface{}) (out []byte, pm string) {
	pm = safely(func() { out = []byte(redact.Sprint(args...)) })
	return
}
func fSprintf(f string, args []interface{}) (out []byte, pm string) {
	pm = safely(func() { out = []byte(fmt.Sprintf(f, args...)) })
	return
}
func fSprint(args []interface{}) (out []byte, pm string) {
	pm = safely(func() { out = []byte(fmt.Sprint(args...)) })
	return
}

func buildArgs(vs []*Val, inst int) []interface{} {
	a := make([]interface{}, len(vs))
	for i, v := range vs {
		a[i] = v.Build(inst)
	}
	return a
}

func valsStr(vs []*Val) string {
	var s []string
	for _, v := range vs {
		s = append(s, v.String())
	}
	return strings.Join(s, " ; ")
}

func excludedDirective(f string) bool {
	// directives whose fmt semantics changed across Go releases: %w, and '0' with '-'
	i := 0
	for i < len(f) {
		if f[i] != '%' {
			i++
			continue
		}
		j := i + 1
		zero, minus := false, false
		for j < len(f) && strings.IndexByte("+-# 0", f[j]) >= 0 {
			if f[j] == '0' {
				zero = true
			}
			if f[j] == '-' {
				minus = true
			}
			j++
		}
		for j < len(f) && (f[j] >= '0' && f[j] <= '9' || f[j] == '.' || f[j] == '*' || f[j] == '[' || f[j] == ']') {
			j++
		}
		if j < len(f) && f[j] == 'w' {
			return true
		}
		if zero && minus {
			return true
		}
		if strings.Contains(f[i:min(j+1, len(f))], "*") {
			// a negative * width sets minus as well
			if zero {
				return true
			}
		}
		i = j + 1
	}
	return false
}

type pcase struct {
	f    string // "" = Sprint
	vals []*Val
}

func (c pcase) desc() string {
	if c.f == "" {
		return "Sprint(" + valsStr(c.vals) + ")"
	}
	return fmt.Sprintf("Sprintf(%q, %s)", c.f, valsStr(c.vals))
}

func (c pcase) run(inst int) ([]byte, string, []interface{}) {
	args := buildArgs(c.vals, inst)
	if c.f == "" {
		o, p := rSprint(args)
		return o, p, args
	}
	o, p := rSprintf(c.f, args)
	return o, p, args
}

func genCase(r *Rng, o GenOpts, allowW bool) pcase {
	n := r.Intn(4)
	if r.Chance(60) {
		n = 1 + r.Intn(2)
	}
	id := 0
	var vs []*Val
	for i := 0; i < n; i++ {
		vs = append(vs, genVal(r, 0, o, &id))
	}
	if r.Chance(20) {
		return pcase{"", vs}
	}
	return pcase{genFormat(r, n, allowW), vs}
}

// --- registry configurations (C05): a random subset of registrable types is
// registered for the duration of one case.
// the last two are pointer types: registering *T must declare *T safe and leave T alone (the model's
// universe has no registered pointer types: configurations >= 16 are used by the real-code oracles only)
var registrable = []reflect.Type{reflect.TypeOf(RegInt(0)), reflect.TypeOf(RegStruct{}), reflect.TypeOf(MyStr("")), reflect.TypeOf(strg{}),
	reflect.TypeOf((*RegStruct)(nil)), reflect.TypeOf((*ptrStruct)(nil))}

type regCfg uint

func (c regCfg) apply() {
	resetRegistry()
	for i, t := range registrable {
		if c&(1<<uint(i)) != 0 {
			redact.RegisterSafeType(t)
		}
	}
}

// --------------------------------------------------------------- C01 / C03 / C11 on printer outputs

func streamPrinterWF(rep *Report, tier string, seed uint64) {
	n := 40000
	if tier == "thorough" {
		n = 1500000
	}
	RunStream(rep, "P-wellformed", false, "random formats (incl. malformed) x random value trees (depth<=3), all kinds, both entry points", false, 1,
		func(sh, ns int, emit func(Case)) {
			r := NewRng(seed*1000 + 101)
			for i := 0; i < n; i++ {
				c := genCase(r, GenOpts{MaxDepth: 3}, true)
				regCfg(r.Intn(16)).apply()
				out, pm, _ := c.run(0)
				var orc []string
				if pm != "" {
					// a panic may propagate only if raised while printing a panic payload
					if !c.hasNestedPanic() {
						orc = append(orc, "C11:print call panicked: "+pm)
					}
				} else {
					if e := wflErr(out); e != "" {
						orc = append(orc, wfTag(e)+"printer output not well-formed/line-safe: "+e)
					} else if e := perLineErr(out, realRedact, realStrip); e != "" {
						orc = append(orc, "C03:"+e)
					}
				}
				emit(Case{Real: c.desc() + " => " + string(out), Oracle: orc, Nontriv: hasMarker(out), Kind: kindOf(c)})
			}
			resetRegistry()
		})
}

func (c pcase) hasNestedPanic() bool { return false }

func anyKind(vs []*Val, k VKind) bool {
	for _, v := range vs {
		if v.hasKind(k) {
			return true
		}
	}
	return false
}

func kindOf(c pcase) string {
	if c.f == "" {
		return "sprint"
	}
	return "sprintf"
}

// --------------------------------------------------------------- C02

func sentinelForms(v *Val, inst int) [][]byte {
	var r [][]byte
	add := func(s string) {
		if len(s) >= 4 {
			r = append(r, []byte(s))
		}
	}
	switch v.K {
	case KString, KBytes, KNamedStr, KErr, KStringer, KPStringer, KGoStringer, KFormatter, KFormatterWS, KErrFormatter, KErrStringer, KPanicStringer, KPanicError:
		s := unsafeStr(v.ID, inst)
		// only the first fragment carries the per-leaf id stamp (later fragments repeat across leaves)
		parts := strings.FieldsFunc(s, func(c rune) bool { return c == '\n' || c == ' ' || c == '‹' || c == '›' })
		if len(parts) > 0 && len(parts[0]) >= 5 {
			add(parts[0])
			add(fmt.Sprintf("%x", parts[0]))
			add(fmt.Sprintf("%X", parts[0]))
		}
	case KInt, KNamedInt, KPanicRuntime, KAnonTagged:
		n := unsafeInt(v.ID, inst)
		add(fmt.Sprint(n))
		add(fmt.Sprintf("%x", n))
		add(fmt.Sprintf("%X", n))
		add(fmt.Sprintf("%o", n))
		add(fmt.Sprintf("%b", n))
	}
	for _, k := range v.Kids {
		if v.K == KSafe {
			continue
		}
		r = append(r, sentinelForms(k, inst)...)
	}
	return r
}

// under Safe() or registration a leaf is public; collect only leaves that are
// unsafe in every registry configuration used (none registered here).
func streamNI(rep *Report, tier string, seed uint64) {
	n := 40000
	if tier == "thorough" {
		n = 1500000
	}
	RunStream(rep, "P-noninterference", false, "random formats x value trees, two instantiations of the unsafe leaves (different lengths, same emptiness and LF positions)", false, 1,
		func(sh, ns int, emit func(Case)) {
			r := NewRng(seed*1000 + 202)
			resetRegistry()
			for i := 0; i < n; i++ {
				c := genCase(r, GenOpts{MaxDepth: 3, NoPanics: r.Chance(70)}, true)
				for anyKind(c.vals, KBuilder) || strings.Contains(c.f, "*") {
					// star operands are public values shared by both instantiations (not varied here);
					// the builder's internal byte slice has a content-dependent length (shape)
					c = genCase(r, GenOpts{MaxDepth: 3, NoPanics: true}, true)
				}
				o0, p0, _ := c.run(0)
				o1, p1, _ := c.run(1)
				var orc []string
				if i%8 == 0 {
					// a redactable obtained from the library whose *hidden* content differs between the instantiations
					// (same safe text, same envelopes), as a direct operand, a wrapped one and inside containers, under
					// a random directive: what is visible after Redact() must not depend on the hidden part
					d := genDirective(r)
					if !strings.ContainsAny(d[len(d)-1:], "Tpw") && !strings.Contains(d, "*") {
						mk := func(inst int) redact.RedactableString {
							return redact.Sprintf("id=%v;n=%d", unsafeStr(2*(i%4), inst), unsafeInt(i%5, inst))
						}
						for ri, wrap := range []func(x redact.RedactableString) interface{}{
							func(x redact.RedactableString) interface{} { return x },
							func(x redact.RedactableString) interface{} { return x.ToBytes() },
							func(x redact.RedactableString) interface{} { return redact.Safe(x) },
							func(x redact.RedactableString) interface{} { return []redact.RedactableString{x} },
							func(x redact.RedactableString) interface{} { return inner{A: x, b: x} },
						} {
							a0, pa := rSprintf("[L"+d+"R]", []interface{}{wrap(mk(0))})
							a1, pb := rSprintf("[L"+d+"R]", []interface{}{wrap(mk(1))})
							if pa == "" && pb == "" && !bytes.Equal(realRedact(a0), realRedact(a1)) {
								orc = append(orc, fmt.Sprintf("C02:redacted outputs differ for a redactable operand (form %d) under %q whose hidden content differs: %q vs %q", ri, d, realRedact(a0), realRedact(a1)))
							}
						}
					}
				}
				if (p0 != "") != (p1 != "") {
					orc = append(orc, "C02:one instantiation panics, the other does not")
				} else if p0 == "" {
					r0, r1 := realRedact(o0), realRedact(o1)
					if !bytes.Equal(r0, r1) {
						site := ""
						// D12: left padding in front of a value that starts with a line feed forms an
						// envelope of its own, present only when the value is shorter than the width
						lfPad := func(b []byte) []byte {
							return bytes.ReplaceAll(b, append(append([]byte(nil), redacted...), '\n'), []byte("\n"))
						}
						if bytes.Equal(lfPad(r0), lfPad(r1)) && strings.ContainsAny(c.f, "0123456789") {
							site = "D12:pad-before-leading-lf@@"
						}
						orc = append(orc, fmt.Sprintf("%sC02:redacted outputs differ: %q vs %q", site, r0, r1))
					}
					for _, v := range c.vals {
						for _, s := range sentinelForms(v, 0) {
							if bytes.Contains(r0, s) && !bytes.Contains([]byte(c.f), s) {
								orc = append(orc, fmt.Sprintf("C02:unsafe content %q present in redacted output %q", s, r0))
							}
						}
					}
				}
				emit(Case{Real: c.desc() + " => " + string(o0), Oracle: orc, Nontriv: bytes.Contains(o0, startM), Kind: kindOf(c)})
			}
		})
}

// --------------------------------------------------------------- C04

func streamFidelity(rep *Report, tier string, seed uint64) {
	n := 60000
	if tier == "thorough" {
		n = 2000000
	}
	// systematic sweep: leaf kinds x verbs x flag subsets x width x precision
	RunStream(rep, "P-fidelity-sweep", true, "fmt-compatible leaf kinds x 23 verbs x flag subsets x widths {none,1,12} x precisions {none,0,3}, top level and inside a slice", false, 1,
		func(sh, ns int, emit func(Case)) {
			resetRegistry()
			flagSets := []string{"", "+", "-", "#", " ", "0", "+#", "-+", "# 0", "+ ", "#-"}
			if tier == "thorough" {
				flagSets = nil
				for m := 0; m < 32; m++ {
					s := ""
					for i, f := range "+-# 0" {
						if m&(1<<uint(i)) != 0 {
							s += string(f)
						}
					}
					flagSets = append(flagSets, s)
				}
			}
			for _, k := range leafKinds {
				v := &Val{K: k, ID: 2, R: "‹x›"}
				if v.redactSpecific() {
					continue
				}
				for _, wrap := range []int{0, 1, 2} {
					for _, vb := range verbs {
						if vb == "w" {
							continue
						}
						for _, fl := range flagSets {
							if strings.Contains(fl, "0") && strings.Contains(fl, "-") {
								continue
							}
							for _, w := range []string{"", "1", "12"} {
								for _, p := range []string{"", ".0", ".3"} {
									if vb[0] == '+' || vb[0] == '#' {
										if fl != "" {
											continue
										}
									}
									f := "<%" + fl + w + p + vb + ">"
									vv := v
									switch wrap {
									case 1:
										vv = &Val{K: KSlice, Kids: []*Val{v}}
									case 2:
										vv = &Val{K: KStruct, Kids: []*Val{v, v}}
									}
									fidelityCase(pcase{f, []*Val{vv}}, emit)
								}
							}
						}
					}
				}
			}
		})
	RunStream(rep, "P-fidelity-random", false, "random formats (incl. malformed, indexes, *) x fmt-compatible value trees", false, 1,
		func(sh, ns int, emit func(Case)) {
			r := NewRng(seed*1000 + 303)
			resetRegistry()
			for i := 0; i < n; i++ {
				c := genCase(r, GenOpts{MaxDepth: 3, NoRedactSpecific: true}, false)
				if excludedDirective(c.f) {
					continue
				}
				fidelityCase(c, emit)
			}
		})
}

// streamStars: `*` widths and precisions (also negative and large ones) with every numeric
// and string verb, compared with fmt: the directive parser's handling of star operands and
// what the leaf formatters do with the resulting width/precision.
func streamStars(rep *Report, tier string, seed uint64) {
	RunStream(rep, "P-stars", true, "flag subsets x {literal width, *} x {none, literal precision, .*} with star operands in {-100,-40,-5,-1,0,1,7,70,100} x 12 verbs x 6 operands, compared with fmt", false, 1,
		func(sh, ns int, emit func(Case)) {
			resetRegistry()
			stars := []int{-100, -40, -5, -1, 0, 1, 7, 70, 100}
			flagSets := []string{"", "0", "+", "+0", "#0", " 0", "#", "-", "+#0"}
			verbs := []string{"d", "x", "o", "b", "v", "s", "q", "e", "f", "g", "c", "U"}
			operands := []interface{}{-5, 255, uint8(7), "ab", 3.5, 'x'}
			for _, fl := range flagSets {
				if strings.Contains(fl, "0") && strings.Contains(fl, "-") {
					continue
				}
				for _, w := range []string{"", "70", "100", "*"} {
					for _, p := range []string{"", ".3", ".*"} {
						for _, vb := range verbs {
							for _, op := range operands {
								ws := []int{0}
								if w == "*" {
									ws = stars
								}
								ps := []int{0}
								if p == ".*" {
									ps = stars
								}
								for _, wv := range ws {
									for _, pv := range ps {
										if w == "*" && wv < 0 && strings.Contains(fl, "0") {
											continue // negative * width sets '-': the excluded 0/- combination
										}
										var args []interface{}
										if w == "*" {
											args = append(args, wv)
										}
										if p == ".*" {
											args = append(args, pv)
										}
										args = append(args, op)
										f := "[%" + fl + w + p + vb + "]"
										ro, rp := rSprintf(f, args)
										fo, fp := fSprintf(f, args)
										var orc []string
										if (rp != "") != (fp != "") {
											orc = append(orc, fmt.Sprintf("C04:panic behaviour differs from fmt for Sprintf(%q, %v): redact=%q fmt=%q", f, args, rp, fp))
											if rp != "" {
												orc = append(orc, fmt.Sprintf("C11:Sprintf(%q, %v) panicked: %s", f, args, rp))
											}
										} else if rp == "" {
											if got, want := realStrip(ro), escQ(fo); !bytes.Equal(got, want) {
												orc = append(orc, fmt.Sprintf("C04:Sprintf(%q, %v): StripMarkers(redact)=%q but fmt prints %q", f, args, got, want))
											}
										}
										emit(Case{Real: fmt.Sprintf("Sprintf(%q, %v) => %s", f, args, ro), Oracle: orc, Nontriv: true, Kind: "star"})
									}
								}
							}
						}
					}
				}
			}
		})
}

func fidelityCase(c pcase, emit func(Case)) {
	args := buildArgs(c.vals, 0)
	var ro, fo []byte
	var rp, fp string
	if c.f == "" {
		ro, rp = rSprint(args)
		fo, fp = fSprint(args)
	} else {
		ro, rp = rSprintf(c.f, args)
		fo, fp = fSprintf(c.f, args)
	}
	var orc []string
	if (rp != "") != (fp != "") {
		orc = append(orc, fmt.Sprintf("C04:panic behaviour differs from fmt: redact=%q fmt=%q", rp, fp))
	} else if rp == "" {
		if got, want := realStrip(ro), escQ(fo); !bytes.Equal(got, want) {
			orc = append(orc, fmt.Sprintf("C04:StripMarkers(redact)=%q but fmt prints %q", got, want))
		}
		if e := wflErr(ro); e != "" {
			orc = append(orc, wfTag(e)+"printer output not well-formed/line-safe: "+e)
		}
	}
	emit(Case{Real: c.desc() + " => " + string(ro), Oracle: orc, Nontriv: hasMarker(ro), Kind: kindOf(c)})
}

// --------------------------------------------------------------- C05

// single operand between two literals: the operand's full rendering is
// enveloped (unsafe) or fully visible (declared safe).
func streamEnvelopes(rep *Report, tier string, seed uint64) {
	n := 30000
	if tier == "thorough" {
		n = 800000
	}
	RunStream(rep, "P-envelopes", false, "lit+directive+lit with one leaf operand, all registry configurations; containers with mixed safe/unsafe leaves (sentinel positions)", false, 1,
		func(sh, ns int, emit func(Case)) {
			r := NewRng(seed*1000 + 404)
			defer resetRegistry()
			for i := 0; i < n; i++ {
				cfg := regCfg(r.Intn(64))
				cfg.apply()
				k := leafKinds[r.Intn(len(leafKinds))]
				v := &Val{K: k, ID: 2 * r.Intn(4), R: redactPool[r.Intn(len(redactPool))]}
				if v.redactSpecific() && v.K != KSafeStr && v.K != KSafeInt || v.panics() {
					continue
				}
				d := genDirective(r)
				if strings.HasSuffix(d, "w") || strings.HasSuffix(d, "T") || strings.HasSuffix(d, "p") || excludedDirective(d) {
					continue
				}
				safeWrap := r.Chance(25)
				vv := v
				if safeWrap {
					vv = &Val{K: KSafe, Kids: []*Val{v}}
				}
				arg := vv.Build(0)
				inner := v.Build(0)
				f := "L1:" + d + ":L2"
				out, pm := rSprintf(f, []interface{}{arg})
				ref, _ := fSprintf(d, []interface{}{inner})
				var orc []string
				declaredSafe := safeWrap || v.K == KSafeStr || v.K == KSafeInt || isRegistered(cfg, inner) ||
					(v.K == KPtrRegStruct && isRegistered(cfg, RegStruct{}))
				valid := !bytes.Contains(ref, []byte("%!"))
				if strings.Contains(d, "#") && strings.HasSuffix(d, "v") && !v.hasKind(KBool, KInt, KInt8, KUint16, KUint64, KUintptr, KFloat, KString, KNamedStr, KNamedInt, KRegInt, KSafeStr, KSafeInt, KDuration) {
					// Go-syntax rendering puts the type name (safe text by design) around the address
					valid = false
				}
				if v.hasKind(KNilMapStringer, KNilSliceError, KNilFuncStringer, KMapIfaceKey, KMapStructKey, KMapSortKeys, KAnonTagged, KPtrStruct, KPtrRegStruct, KStrSlice, KIntArr, KMapKeyed, KRegStruct, KByteArr, KBytes, KComplex, KNilStringer, KGoStringer) && !declaredSafe {
					// composite renderings: structural punctuation is written as safe text by design
					valid = false
				}
				if pm != "" {
					orc = append(orc, "C11:print call panicked: "+pm)
				} else if bytes.HasPrefix(out, []byte("L1:")) && bytes.HasSuffix(out, []byte(":L2")) && valid && v.K != KNil {
					mid := out[3 : len(out)-3]
					if declaredSafe {
						if hasMarker(mid) || !bytes.Equal(mid, escQ(ref)) {
							orc = append(orc, fmt.Sprintf("C05:declared-safe operand not fully visible: got %q want %q", mid, escQ(ref)))
						}
					} else if !v.ownClass() {
						if len(bytes.Trim(dropEnvs(mid), "\n")) != 0 {
							orc = append(orc, fmt.Sprintf("C05:part of an unsafe operand's rendering is outside envelopes: %q", mid))
						}
						if !bytes.Equal(realStrip(mid), escQ(ref)) {
							orc = append(orc, fmt.Sprintf("C05:unsafe operand's rendering differs from fmt: %q vs %q", realStrip(mid), escQ(ref)))
						}
					}
				} else if valid && v.K != KNil {
					orc = append(orc, fmt.Sprintf("C05:format literals not intact around the operand: %q", out))
				}
				emit(Case{Real: fmt.Sprintf("cfg=%d Sprintf(%q, %s) => %s", cfg, f, vv, out), Oracle: orc, Nontriv: hasMarker(out), Kind: fmt.Sprintf("safe=%v", declaredSafe)})
			}
			resetRegistry()
			for i := 0; i < n; i++ {
				envelopeTreeCase(r, emit)
			}
		})
}

// safeSentinels / unsafeSentinels: the id-stamped content of leaves, by classification
// (registry empty; leaves under Safe() count as safe, under Unsafe() as unsafe).
func collectSentinels(v *Val, ctx int, unexp bool, safe, unsafe *[][]byte) {
	switch v.K {
	case KSafe:
		if ctx == 0 {
			ctx = 1
		}
	case KUnsafe:
		if ctx == 0 {
			ctx = 2
		}
	}
	add := func(dst *[][]byte, s string) {
		parts := strings.FieldsFunc(s, func(c rune) bool { return c == '\n' || c == ' ' || c == '‹' || c == '›' })
		if len(parts) > 0 && len(parts[0]) >= 5 {
			*dst = append(*dst, []byte(parts[0]))
		}
	}
	switch v.K {
	case KString, KNamedStr, KErr, KStringer, KPStringer, KErrStringer, KFormatter, KFormatterWS:
		if ctx == 1 {
			add(safe, unsafeStr(v.ID, 0))
		} else {
			add(unsafe, unsafeStr(v.ID, 0))
		}
	case KSafeStr, KSafeStringer, KAnonEmbedSafe:
		if unexp && ctx == 0 {
			// a SafeValue reached through an unexported field cannot be interfaced: it is
			// (conservatively) treated as unsafe by the library; no expectation either way
		} else if ctx == 2 {
			add(unsafe, safeStr(v.ID))
		} else {
			add(safe, safeStr(v.ID))
		}
	}
	for i, k := range v.Kids {
		collectSentinels(k, ctx, unexp || (v.K == KStruct && i == 1) || v.K == KReflectValue, safe, unsafe)
	}
}

func envelopeTreeCase(r *Rng, emit func(Case)) {
	id := 0
	n := 1 + r.Intn(3)
	var vs []*Val
	for i := 0; i < n; i++ {
		vs = append(vs, genVal(r, 0, GenOpts{MaxDepth: 3, NoPanics: true}, &id))
	}
	c := pcase{"", vs}
	if r.Bool() {
		f := ""
		for i := 0; i < n; i++ {
			f += []string{"%v ", "%+v|", "%s,", "%8v;", "%-9v.", "%q:", "%#v/", "%s "}[r.Intn(8)]
		}
		c.f = f
	}
	out, pm, _ := c.run(0)
	var orc []string
	if pm != "" {
		orc = append(orc, "C11:print call panicked: "+pm)
	} else if e := wflErr(out); e != "" {
		orc = append(orc, wfTag(e)+e)
	} else {
		var safe, unsafe [][]byte
		for _, v := range vs {
			collectSentinels(v, 0, false, &safe, &unsafe)
		}
		outside := dropEnvs(out)
		all := stripOnce(out)
		for _, s := range unsafe {
			if bytes.Contains(outside, s) && !bytesIn(safe, s) {
				orc = append(orc, fmt.Sprintf("C05:content %q of a value not declared safe is outside envelopes: %q", s, out))
			}
		}
		for _, s := range safe {
			if bytes.Count(outside, s) != bytes.Count(all, s) && !bytesIn(unsafe, s) {
				orc = append(orc, fmt.Sprintf("C05:content %q of a declared-safe value is inside an envelope: %q", s, out))
			}
		}
	}
	emit(Case{Real: c.desc() + " => " + string(out), Oracle: orc, Nontriv: hasMarker(out), Kind: "tree"})
}

func bytesIn(l [][]byte, s []byte) bool {
	for _, x := range l {
		if bytes.Equal(x, s) {
			return true
		}
	}
	return false
}

func isRegistered(cfg regCfg, v interface{}) bool {
	t := reflect.TypeOf(v)
	for i, rt := range registrable {
		if cfg&(1<<uint(i)) != 0 && rt == t {
			return true
		}
	}
	return false
}

// --------------------------------------------------------------- C06

func streamWrappers(rep *Report, tier string, seed uint64) {
	n := 40000
	if tier == "thorough" {
		n = 1200000
	}
	RunStream(rep, "P-wrappers", false, "Unsafe(x)/Safe(x) for random x (all kinds, depth<=3, nested wrappers <=3), random directives, registry configurations, error hook on/off", false, 1,
		func(sh, ns int, emit func(Case)) {
			r := NewRng(seed*1000 + 505)
			defer resetRegistry()
			defer redact.RegisterRedactErrorFn(nil)
			for i := 0; i < n; i++ {
				regCfg(r.Intn(16)).apply()
				if r.Chance(30) {
					redact.RegisterRedactErrorFn(testHook)
				} else {
					redact.RegisterRedactErrorFn(nil)
				}
				id := 0
				// one case in five may contain panicking methods (payloads of every classification): the
				// report of a caught panic under Unsafe() must be inside envelopes like everything else
				x := genVal(r, 0, GenOpts{MaxDepth: 3, NoPanics: !r.Chance(20)}, &id)
				d := genDirective(r)
				if strings.HasSuffix(d, "w") || strings.HasSuffix(d, "T") || strings.HasSuffix(d, "p") || excludedDirective(d) {
					d = "%v"
				}
				xv := x.Build(0)
				var orc []string
				// "the outermost decides" on every route to the printer: wrappers nested directly inside each other, given as
				// an operand, as a reflect.Value operand, in an interface-typed struct field and behind a pointer to that struct
				if i%16 == 0 {
					word := unsafeStr(i%40, 0)
					if !strings.ContainsAny(word, "\n‹›") {
						for mask := 0; mask < 14; mask++ {
							// nestings of depth 2 and 3: bit j set = Unsafe at level j (level 0 outermost)
							depth := 2 + mask/8
							bits := mask % 8
							if depth == 2 {
								bits = mask % 4
							}
							var w interface{} = word
							for j := depth - 1; j >= 0; j-- {
								if bits&(1<<uint(j)) != 0 {
									w = redact.Unsafe(w)
								} else {
									w = redact.Safe(w)
								}
							}
							outerUnsafe := bits&1 != 0
							want := word
							if outerUnsafe {
								want = "‹" + word + "›"
							}
							for ri, route := range []struct {
								arg       interface{}
								pre, post string
							}{{w, "", ""}, {reflect.ValueOf(w), "", ""}, {inner{A: w}, "{", " <nil>}"}, {&inner{A: w}, "&{", " <nil>}"}} {
								out, pm := rSprint([]interface{}{route.arg})
								if pm != "" {
									orc = append(orc, "C11:print call panicked: "+pm)
								} else if string(out) != route.pre+want+route.post {
									orc = append(orc, fmt.Sprintf("C06:nested wrappers (depth %d, pattern %b, route %d): got %q want %q", depth, bits, ri, out, route.pre+want+route.post))
								}
							}
						}
					}
				}
				// user methods that call back into the printer (nested Print/Printf) while a wrapper is in force
				if r.Chance(15) {
					cb := callbackFmtr{safe: safeStr(i % 50), unsafe: unsafeStr(i%50, 0), usePrintf: r.Bool(), join: r.Intn(4)}
					if r.Chance(33) {
						// a plain fmt.Formatter that discovers the SafePrinter behind its fmt.State, under Safe()
						wv := redact.Safe(cb)
						if r.Bool() {
							wv = redact.Safe(redact.Unsafe(cb))
						}
						out, pm := rSprint([]interface{}{wv})
						if pm != "" {
							orc = append(orc, "C11:print call panicked: "+pm)
						} else if hasMarker(out) && cb.join != 3 {
							orc = append(orc, fmt.Sprintf("C06:Safe(Formatter calling back through the SafePrinter, join=%d) produced an envelope: %q", cb.join, out))
						}
					} else if r.Bool() {
						out, pm := rSprint([]interface{}{redact.Unsafe(cb)})
						if pm != "" {
							orc = append(orc, "C11:print call panicked: "+pm)
						} else if e := wflErr(out); e != "" {
							orc = append(orc, wfTag(e)+e)
						} else if len(bytes.Trim(dropEnvs(out), "\n")) != 0 {
							orc = append(orc, fmt.Sprintf("C06:Unsafe(formatter calling back through SafePrinter) not entirely inside envelopes: %q", out))
						}
					} else {
						out, pm := rSprint([]interface{}{redact.Safe(callbackSF{cb})})
						if pm != "" {
							orc = append(orc, "C11:print call panicked: "+pm)
						} else if hasMarker(out) && cb.join != 3 {
							// (join = 3 prints a finished redactable, which keeps its own envelopes under Safe)
							orc = append(orc, fmt.Sprintf("C06:Safe(SafeFormatter calling back through Print/Printf) produced an envelope: %q", out))
						}
					}
				}
				// Unsafe(x), also nested under further wrappers: outermost decides
				uw := redact.Unsafe(xv)
				depth := r.Intn(3)
				lbl := "Unsafe(x)"
				for j := 0; j < depth; j++ {
					if r.Bool() {
						uw = redact.Unsafe(uw)
						lbl = "Unsafe(" + lbl + ")"
					}
				}
				out, pm := rSprintf("L1:"+d+":L2", []interface{}{uw})
				if pm != "" {
					orc = append(orc, "C11:print call panicked: "+pm)
				} else if !bytes.HasPrefix(out, []byte("L1:")) || !bytes.HasSuffix(out, []byte(":L2")) {
					orc = append(orc, fmt.Sprintf("C06:literals damaged around Unsafe(x): %q", out))
				} else {
					mid := out[3 : len(out)-3]
					if e := wflErr(out); e != "" {
						orc = append(orc, wfTag(e)+e)
					} else if len(bytes.Trim(dropEnvs(mid), "\n")) != 0 {
						orc = append(orc, fmt.Sprintf("C06:rendering of %s not entirely inside envelopes: %q", lbl, mid))
					}
					if !x.redactSpecific() && !x.panics() && !x.hasKind(KErr, KErrFormatter, KErrStringer) {
						ref, _ := fSprintf(d, []interface{}{xv})
						if !bytes.Equal(realStrip(mid), escQ(ref)) {
							orc = append(orc, fmt.Sprintf("C06:characters of Unsafe(x) differ from fmt's for x: %q vs %q", realStrip(mid), escQ(ref)))
						}
					}
				}
				emit(Case{Real: fmt.Sprintf("Sprintf(%q, %s) x=%s => %s", d, lbl, x, out), Oracle: orc, Nontriv: true, Kind: "unsafe"})
				// Safe(x) for x without own classification
				if !x.ownClass() && !x.panics() && !x.hasKind(KErr, KErrFormatter, KErrStringer) {
					var o2 []string
					sw := interface{}(redact.Safe(xv))
					lbl := "Safe(x)"
					switch r.Intn(4) {
					case 1:
						sw = redact.Safe(redact.Unsafe(xv))
						lbl = "Safe(Unsafe(x))"
					case 2:
						sw = redact.Safe(redact.Safe(xv))
						lbl = "Safe(Safe(x))"
					}
					out, pm := rSprintf(d, []interface{}{sw})
					ref, _ := fSprintf(d, []interface{}{xv})
					if pm != "" {
						o2 = append(o2, "C11:print call panicked: "+pm)
					} else {
						if hasMarker(out) {
							o2 = append(o2, fmt.Sprintf("C06:%s produced an envelope: %q", lbl, out))
						}
						if !bytes.Equal(out, escQ(ref)) {
							site := ""
							if lbl == "Safe(Safe(x))" {
								site = "D6:safe-in-safe@@"
							}
							o2 = append(o2, fmt.Sprintf("%sC06:characters of %s differ from fmt's for x: %q vs %q", site, lbl, out, escQ(ref)))
						}
					}
					emit(Case{Real: fmt.Sprintf("Sprintf(%q, %s) x=%s => %s", d, lbl, x, out), Oracle: o2, Nontriv: true, Kind: "safe"})
				}
			}
		})
}

// callbackFmtr is a fmt.Formatter that discovers the SafePrinter behind its
// fmt.State and calls back into the printer.
type callbackFmtr struct {
	safe, unsafe string
	usePrintf    bool
	join         int // 1: JoinTo over strings, 2: JoinTo over mixed values, 3: a Join result printed
}

func (c callbackFmtr) run(sp redact.SafePrinter) {
	switch c.join {
	case 1:
		redact.JoinTo(sp, ", ", []string{c.unsafe, "bob"})
	case 2:
		redact.JoinTo(sp, "|", []interface{}{c.unsafe, redact.Safe(3), redact.SafeString(c.safe)})
	case 3:
		sp.Print(redact.Join(" / ", []redact.RedactableString{redact.Sprint(c.unsafe), redact.Sprint(7)}))
	}
	if c.usePrintf {
		sp.Printf("cb %s|%d|%v", c.unsafe, redact.Safe(7), redact.SafeString(c.safe))
	} else {
		sp.Print(redact.Safe(c.safe), c.unsafe, redact.SafeString("z"))
	}
	sp.SafeString("tail")
}

func (c callbackFmtr) Format(st fmt.State, _ rune) {
	if sp, ok := st.(redact.SafePrinter); ok {
		c.run(sp)
	} else {
		fmt.Fprint(st, "plain")
	}
}

type callbackSF struct{ c callbackFmtr }

func (c callbackSF) SafeFormat(sp redact.SafePrinter, _ rune) { c.c.run(sp) }

// safeHolder is a SafeValue-marked container.
type safeHolder struct{ A interface{} }

func (safeHolder) SafeValue() {}

func testHook(err error, p redact.SafePrinter, verb rune) {
	p.SafeString("HOOK[")
	p.UnsafeString(err.Error())
	p.SafeRune(redact.SafeRune(verb))
	p.SafeString("]")
}

// --------------------------------------------------------------- C08

// nestedJoin: a SafeFormatter that prints redactables through its SafePrinter (k: Print, Printf, JoinTo).
type nestedJoin struct {
	parts []redact.RedactableString
	k     int
}

func (j nestedJoin) SafeFormat(w redact.SafePrinter, _ rune) {
	switch j.k {
	case 0:
		for i, p := range j.parts {
			if i > 0 {
				w.SafeString(", ")
			}
			w.Print(p)
		}
	case 1:
		w.Printf("%v, %v", j.parts[0], j.parts[1])
	default:
		redact.JoinTo(w, ", ", j.parts)
	}
}

func streamCompose(rep *Report, tier string, seed uint64) {
	n := 20000
	if tier == "thorough" {
		n = 500000
	}
	RunStream(rep, "P-compose", false, "redactables obtained from the library (pool grows by re-printing and joining, depth<=5) re-printed under random directives and container shapes; Sprintf concatenation; Join", false, 1,
		func(sh, ns int, emit func(Case)) {
			r := NewRng(seed*1000 + 606)
			resetRegistry()
			pool := []redact.RedactableString{}
			for _, s := range redactPool {
				pool = append(pool, redact.RedactableString(s))
			}
			// seed the pool with real outputs
			for i := 0; i < 30; i++ {
				c := genCase(r, GenOpts{MaxDepth: 2, NoPanics: true, NoAddr: true}, false)
				o, pm, _ := c.run(0)
				if pm == "" && len(o) < 200 {
					pool = append(pool, redact.RedactableString(o))
				}
			}
			for i := 0; i < n; i++ {
				rs := pool[r.Intn(len(pool))]
				d := genDirective(r)
				if strings.HasSuffix(d, "T") || strings.HasSuffix(d, "p") || strings.HasSuffix(d, "w") {
					d = "%v"
				}
				var orc []string
				if i%16 == 0 {
					// a redactable produced by a formatter that printed through its SafePrinter (nested
					// printers: Print, Printf, JoinTo), held, and re-printed right away behind a literal:
					// the held string must not change and the re-print must be literal + string
					parts := []redact.RedactableString{pool[r.Intn(len(pool))], pool[r.Intn(len(pool))]}
					held := redact.Sprint(nestedJoin{parts, r.Intn(3)})
					heldCopy := string(append([]byte(nil), held...))
					lit := []string{"id=", "x ", "‹", "a long literal in front of it: "}[r.Intn(4)]
					again := redact.Sprintf(strings.ReplaceAll(lit, "%", "%%")+"%s", held)
					if string(held) != heldCopy {
						orc = append(orc, fmt.Sprintf("C08:a redactable obtained earlier changed when it was re-printed: %q became %q", heldCopy, held))
					} else if want := string(redact.Sprintf(strings.ReplaceAll(lit, "%", "%%"))) + heldCopy; string(again) != want {
						orc = append(orc, fmt.Sprintf("C08:Sprintf(%q, r) = %q for r = %q", lit+"%s", again, heldCopy))
					}
				}
				var arg interface{} = rs
				asBytes := r.Chance(30)
				if asBytes {
					arg = rs.ToBytes()
				}
				out, pm := rSprintf(d, []interface{}{arg})
				if pm != "" {
					orc = append(orc, "C11:panic: "+pm)
				} else if string(out) != string(rs) {
					orc = append(orc, fmt.Sprintf("C08:re-printing %q with %q gives %q", rs, d, out))
				}
				// under Safe(): a redactable keeps its own classification and is still reproduced unchanged
				if o3, pm3 := rSprintf(d, []interface{}{redact.Safe(arg)}); pm3 != "" {
					orc = append(orc, "C11:panic: "+pm3)
				} else if string(o3) != string(rs) {
					orc = append(orc, fmt.Sprintf("C08:re-printing Safe(%q) with %q gives %q", rs, d, o3))
				}
				if o4, _ := rSprint([]interface{}{redact.Safe([]interface{}{arg, 1}), safeHolder{A: arg}}); string(o4) != "["+string(rs)+" 1] {"+string(rs)+"}" {
					orc = append(orc, fmt.Sprintf("C08:redactable inside a Safe()/SafeValue container: got %q", o4))
				}
				// containers
				shape := r.Intn(12)
				var cont interface{}
				var want string
				switch shape {
				case 9:
					// redactables as map keys by the map's static key type (no interface in between)
					cont, want = map[redact.RedactableString]redact.RedactableString{rs: rs}, "map["+string(rs)+":"+string(rs)+"]"
				case 10:
					cont, want = map[redact.RedactableString]interface{}{rs: arg}, "map["+string(rs)+":"+string(rs)+"]"
				case 11:
					cont, want = &struct{ M map[redact.RedactableString]redact.SafeInt }{map[redact.RedactableString]redact.SafeInt{rs: 3}}, "&{map["+string(rs)+":3]}"
				case 5:
					// keys that fmtsort has to order without being able to look them up again (NaN != NaN)
					cont, want = map[float64]redact.RedactableString{math.NaN(): rs}, "map[‹NaN›:"+string(rs)+"]"
				case 6:
					cont, want = map[interface{}]interface{}{float32(math.NaN()): arg}, "map[‹NaN›:"+string(rs)+"]"
				case 7:
					cont, want = map[[2]float64]redact.RedactableString{{math.NaN(), 1}: rs}, "map[[‹NaN› ‹1›]:"+string(rs)+"]"
				case 8:
					cont, want = map[string]redact.RedactableBytes{"": rs.ToBytes()}, "map[:"+string(rs)+"]" // (an empty unsafe key leaves no envelope)
				case 0:
					cont, want = []interface{}{arg}, "["+string(rs)+"]"
				case 1:
					cont, want = map[string]interface{}{"k": arg}, "map[‹k›:"+string(rs)+"]"
				case 2:
					cont, want = inner{A: arg, b: arg}, "{"+string(rs)+" "+string(rs)+"}"
				case 3:
					cont, want = []redact.RedactableString{rs, rs}, "["+string(rs)+" "+string(rs)+"]"
				case 4:
					cont, want = &inner{A: arg}, "&{"+string(rs)+" <nil>}"
				}
				// below a pointer that is itself below the top level, under verbs the pointer rendering rejects (the bad-verb
				// report prints the pointee again): the redactable is still reproduced verbatim
				if i%8 == 0 && len(rs) > 0 {
					for _, bd := range []string{"%s", "%q", "%t", "%e", "%c", "%U"} {
						o5, pm5 := rSprintf(bd, []interface{}{struct{ P *inner }{&inner{A: arg}}})
						if pm5 != "" {
							orc = append(orc, "C11:panic: "+pm5)
						} else if !bytes.Contains(o5, []byte(rs)) {
							orc = append(orc, fmt.Sprintf("C08:redactable %q below a nested pointer under %s is not reproduced verbatim: %q", rs, bd, o5))
						}
					}
				}
				o2, pm2 := rSprint([]interface{}{cont})
				if pm2 != "" {
					orc = append(orc, "C11:panic: "+pm2)
				} else if string(o2) != want {
					orc = append(orc, fmt.Sprintf("C08:redactable inside container shape %d: got %q want %q", shape, o2, want))
				}
				// Sprint(Sprint(a)) = Sprint(a); Sprintf concatenation; Join
				r2 := pool[r.Intn(len(pool))]
				if s := redact.Sprint(redact.Sprint(rs, r2)); s != redact.Sprint(rs, r2) {
					orc = append(orc, fmt.Sprintf("C08:Sprint(Sprint(a)) != Sprint(a): %q", s))
				}
				cat := redact.Sprintf("lit %s|%v‹", rs, r2)
				wantCat := "lit " + string(rs) + "|" + string(r2) + "?"
				if string(cat) != wantCat {
					orc = append(orc, fmt.Sprintf("C08:Sprintf of redactables is not the concatenation: %q want %q", cat, wantCat))
				}
				delim := pool[r.Intn(len(pool))]
				j := redact.Join(delim, []redact.RedactableString{rs, r2, rs})
				wantJ := string(rs) + string(delim) + string(r2) + string(delim) + string(rs)
				if string(j) != wantJ {
					orc = append(orc, fmt.Sprintf("C08:Join is not concatenation: %q want %q", j, wantJ))
				}
				var sb redact.StringBuilder
				redact.JoinTo(&sb, delim, []redact.RedactableString{rs, r2})
				if string(sb.RedactableString()) != string(rs)+string(delim)+string(r2) {
					orc = append(orc, fmt.Sprintf("C08:JoinTo is not concatenation: %q", sb.RedactableString()))
				}
				// JoinTo over element types that are not of string kind, and with an empty delimiter
				for _, dl := range []redact.RedactableString{delim, ""} {
					var sb2, sb3 redact.StringBuilder
					redact.JoinTo(&sb2, dl, []redact.RedactableBytes{rs.ToBytes(), r2.ToBytes(), rs.ToBytes()})
					if want := string(rs) + string(dl) + string(r2) + string(dl) + string(rs); string(sb2.RedactableString()) != want {
						orc = append(orc, fmt.Sprintf("C08:JoinTo over []RedactableBytes is not concatenation: %q want %q", sb2.RedactableString(), want))
					}
					redact.JoinTo(&sb3, dl, []interface{}{rs, r2.ToBytes(), redact.Safe("s"), 7})
					if want := string(rs) + string(dl) + string(r2) + string(dl) + "s" + string(dl) + "‹7›"; string(sb3.RedactableString()) != want {
						orc = append(orc, fmt.Sprintf("C08:JoinTo over []interface{} is not the concatenation of the elements' renderings: %q want %q", sb3.RedactableString(), want))
					}
				}
				// distribution of Redact / StripMarkers
				if string(cat.Redact()) != "lit "+string(rs.Redact())+"|"+string(r2.Redact())+"?" {
					orc = append(orc, "C08:Redact does not distribute over Sprintf composition")
				}
				if j.StripMarkers() != rs.StripMarkers()+delim.StripMarkers()+r2.StripMarkers()+delim.StripMarkers()+rs.StripMarkers() {
					orc = append(orc, "C08:StripMarkers does not distribute over Join")
				}
				if e := wflErr([]byte(j)); e != "" {
					orc = append(orc, "C01:Join output not well-formed: "+e)
				}
				emit(Case{Real: fmt.Sprintf("reprint %q under %q", rs, d), Oracle: orc, Nontriv: hasMarker([]byte(rs)), Kind: fmt.Sprintf("shape%d", shape)})
				if len(pool) < 400 && len(cat) < 300 {
					pool = append(pool, cat)
					if len(j) < 300 {
						pool = append(pool, j)
					}
				}
			}
		})
}

// --------------------------------------------------------------- C11

func streamTotality(rep *Report, tier string, seed uint64) {
	RunStream(rep, "P-runes-bytes", true, "every rune in {-1,0,0x7F,0x80,0x7FF,0x800,0xD7FF, all 2048 surrogates,0xE000,0xFFFD,0x10FFFF,0x110000,MaxInt32,MinInt32} and all 256 bytes x every rune/byte entry point x 4 buffer states", false, 1,
		func(sh, ns int, emit func(Case)) {
			runes := []int{-1, 0, 0x7F, 0x80, 0x7FF, 0x800, 0xD7FF, 0xE000, 0xFFFD, 0x10FFFF, 0x110000, 0x7FFFFFFF, -0x80000000, 0x2039, 0x203A}
			for s := 0xD800; s <= 0xDFFF; s++ {
				runes = append(runes, s)
			}
			prefixes := [][]bop{nil, {{tag: "us", p: []byte("a")}}, {{tag: "ss", p: []byte{0xE2, 0x80}}}, {{tag: "pr", p: []byte("‹x›"), args: []interface{}{"x"}}}}
			for pi, pre := range prefixes {
				for _, rn := range runes {
					for _, tag := range []string{"sr", "ur"} {
						ops := append(append([]bop(nil), pre...), bop{tag: tag, n: rn})
						runeCase(pi, ops, emit)
					}
				}
				for b := 0; b < 256; b++ {
					for _, tag := range []string{"sb", "ub"} {
						ops := append(append([]bop(nil), pre...), bop{tag: tag, n: b})
						runeCase(pi, ops, emit)
					}
				}
			}
		})
	RunStream(rep, "P-panics", false, "user methods that panic (String, Error, SafeFormat after partial output), panic payload kinds, nil receivers; JoinTo with every value kind", false, 1,
		func(sh, ns int, emit func(Case)) {
			resetRegistry()
			payloads := []interface{}{"boom", errors.New("eboom‹"), redact.Safe("safeboom"), redact.RedactableString("‹r›"), 42, nil}
			for _, pl := range payloads {
				for _, where := range []string{"String", "Error", "Format", "GoString", "SafeFormat", "SafeMessage"} {
					for _, d := range []string{"%v", "%s", "%+v", "%#v", "%d", "%10v", "%x"} {
						v := mkPanicker(where, pl)
						out, pm := rSprintf("pre‹ "+d+" ›post", []interface{}{v})
						var orc []string
						if pm != "" {
							if pl != nil {
								orc = append(orc, fmt.Sprintf("C11:panic in %s method (payload %v) propagated: %s", where, pl, pm))
							}
						} else {
							if !bytes.HasPrefix(out, []byte("pre? ")) || !bytes.HasSuffix(out, []byte(" ?post")) {
								orc = append(orc, fmt.Sprintf("C11:text around the panic report damaged: %q", out))
							}
							dispatched := bytes.Contains(out, []byte("PANIC="))
							if dispatched {
								if e := wflErr(out); e != "" {
									orc = append(orc, wfTag(e)+e)
								}
								// payload treated as unsafe unless itself declared safe
								if s, ok := pl.(string); ok && bytes.Contains(dropEnvs(out), []byte(s)) {
									orc = append(orc, fmt.Sprintf("C11:panic payload %q printed outside envelopes: %q", s, out))
								}
							}
						}
						emit(Case{Real: fmt.Sprintf("panic in %s payload=%v %q => %s", where, pl, d, out), Oracle: orc, Nontriv: true, Kind: "panic:" + where})
					}
				}
			}
			// JoinTo with every value kind
			r := NewRng(seed*1000 + 707)
			for i := 0; i < 3000; i++ {
				id := 0
				v := genVal(r, 0, GenOpts{MaxDepth: 2, NoPanics: true}, &id)
				var sb redact.StringBuilder
				arg := v.Build(0)
				pm := safely(func() { redact.JoinTo(&sb, "‹d›", arg) })
				var orc []string
				if pm != "" {
					orc = append(orc, "C11:JoinTo panicked: "+pm)
				} else {
					if e := wflErr([]byte(sb.RedactableString())); e != "" {
						orc = append(orc, "C01:JoinTo output: "+e)
					}
					if rv := reflect.ValueOf(arg); !rv.IsValid() || rv.Kind() != reflect.Slice {
						if sb.RedactableString() != redact.Sprint(arg) {
							orc = append(orc, fmt.Sprintf("C11:JoinTo of a non-slice prints %q, Sprint prints %q", sb.RedactableString(), redact.Sprint(arg)))
						}
					}
				}
				emit(Case{Real: "JoinTo " + v.String() + " => " + string(sb.RedactableString()), Oracle: orc, Nontriv: true, Kind: "joinTo"})
			}
		})
}

func runeCase(pi int, ops []bop, emit func(Case)) {
	for _, impl := range []string{"bld", "n 0", "n 1", "buf"} {
		var fin []byte
		pm := safely(func() {
			switch impl {
			case "bld":
				_, fin = execBld(ops)
			case "buf":
				var m []bop
				for _, o := range ops {
					switch o.tag {
					case "sr", "ur":
						md := 1
						if o.tag == "ur" {
							md = 0
						}
						m = append(m, bop{tag: "m", n: md}, bop{tag: "r", n: o.n})
					case "sb", "ub":
						md := 1
						if o.tag == "ub" {
							md = 0
						}
						m = append(m, bop{tag: "m", n: md}, bop{tag: "b", n: o.n})
					case "ss":
						m = append(m, bop{tag: "m", n: 1}, bop{tag: "w", p: o.p})
					case "us":
						m = append(m, bop{tag: "m", n: 0}, bop{tag: "w", p: o.p})
					case "pr":
						m = append(m, bop{tag: "m", n: 2}, bop{tag: "w", p: o.p})
					}
				}
				_, fin = execBuf(m)
			default:
				if !noPrint(ops) {
					return
				}
				_, fin = execAdp(impl, ops)
			}
		})
		var orc []string
		if pm != "" {
			orc = append(orc, "C11:rune/byte write panicked: "+pm)
		} else if e := wflErr(fin); e != "" {
			orc = append(orc, wfTag(e)+e)
		}
		emit(Case{Real: opsLine(impl, ops) + " => " + string(fin), Oracle: orc, Nontriv: true, Kind: "rune:" + impl})
	}
}

type pString struct{ pl interface{} }

func (p pString) String() string { panic(p.pl) }

type pError struct{ pl interface{} }

func (p pError) Error() string { panic(p.pl) }

type pFormat struct{ pl interface{} }

func (p pFormat) Format(s fmt.State, _ rune) { io.WriteString(s, "part"); panic(p.pl) }

type pGoString struct{ pl interface{} }

func (p pGoString) GoString() string { panic(p.pl) }

type pSafeFormat struct{ pl interface{} }

func (p pSafeFormat) SafeFormat(w redact.SafePrinter, _ rune) {
	w.SafeString("part")
	w.UnsafeString("upart")
	panic(p.pl)
}

type pSafeMessage struct{ pl interface{} }

func (p pSafeMessage) SafeMessage() string { panic(p.pl) }

func mkPanicker(where string, pl interface{}) interface{} {
	switch where {
	case "String":
		return pString{pl}
	case "Error":
		return pError{pl}
	case "Format":
		return pFormat{pl}
	case "GoString":
		return pGoString{pl}
	case "SafeFormat":
		return pSafeFormat{pl}
	}
	return pSafeMessage{pl}
}

// --------------------------------------------------------------- C16

type recWriter struct {
	calls [][]byte
	mode  int // 0 ok, 1 error, 2 short, 3 ok but the destination itself prints before it reads its argument
}

var errWriter = errors.New("writer failed")

func (w *recWriter) Write(p []byte) (int, error) {
	if w.mode == 3 {
		// a sink that formats something of its own (a prefix, a timestamp) before consuming p:
		// the bytes handed to Write must not live in storage a later print call can reuse
		for i := 0; i < 3; i++ {
			_ = redact.Sprintf("%s|%d", strings.Repeat("y", len(p)+8), 12345)
			var sink bytes.Buffer
			_, _ = redact.Fprintf(&sink, "%s", strings.Repeat("z", len(p)+8))
		}
	}
	w.calls = append(w.calls, cp(p))
	switch w.mode {
	case 1:
		return 0, errWriter
	case 2:
		return len(p) / 2, io.ErrShortWrite
	}
	return len(p), nil
}

type viaSF struct {
	f    string
	args []interface{}
}

func (v viaSF) SafeFormat(p redact.SafePrinter, _ rune) {
	if v.f == "" {
		p.Print(v.args...)
	} else {
		p.Printf(v.f, v.args...)
	}
}

func streamRoutes(rep *Report, tier string, seed uint64) {
	n := 20000
	if tier == "thorough" {
		n = 600000
	}
	RunStream(rep, "P-routes", false, "one argument list through Sprint/Fprint/StringBuilder.Print/SafePrinter.Print (Sprintfn and SafeFormat) and the four printf routes; writers ok/error/short", false, 1,
		func(sh, ns int, emit func(Case)) {
			r := NewRng(seed*1000 + 808)
			defer resetRegistry()
			for i := 0; i < n; i++ {
				regCfg(r.Intn(16)).apply()
				if r.Chance(4) {
					// an earlier call in which a nested printer was left by a propagating panic (a panic while a
					// panic payload was being printed, inside a SafeFormat's Print): whatever printer the next
					// calls receive, the routes must still agree
					safely(func() { redact.Sprint(viaSF{"", []interface{}{pString{pString{"deep"}}}}) })
				}
				c := genCase(r, GenOpts{MaxDepth: 3, NoPanics: r.Chance(80)}, r.Chance(30))
				args := buildArgs(c.vals, 0)
				var orc []string
				var s []byte
				var pm string
				if c.f == "" {
					s, pm = rSprint(args)
				} else {
					s, pm = rSprintf(c.f, args)
				}
				if pm != "" {
					// the flat routes (no enclosing user method to catch it) must agree on panicking too
					var orcp []string
					pmF := safely(func() {
						if c.f == "" {
							redact.Fprint(&recWriter{mode: 0}, args...)
						} else {
							redact.Fprintf(&recWriter{mode: 0}, c.f, args...)
						}
					})
					pmB := safely(func() {
						var sb redact.StringBuilder
						if c.f == "" {
							sb.Print(args...)
						} else {
							sb.Printf(c.f, args...)
						}
					})
					if pmF == "" || pmB == "" {
						orcp = append(orcp, fmt.Sprintf("C16:the S-variant panics (%s) but Fprint/StringBuilder route do not (%q, %q)", pm, pmF, pmB))
					}
					emit(Case{Real: c.desc() + " => PANIC", Oracle: orcp, Nontriv: false, Kind: "panic"})
					continue
				}
				{
					// ... and when it does not panic, neither do they
					pmF := safely(func() {
						if c.f == "" {
							redact.Fprint(&recWriter{mode: 0}, args...)
						} else {
							redact.Fprintf(&recWriter{mode: 0}, c.f, args...)
						}
					})
					if pmF != "" {
						orc = append(orc, fmt.Sprintf("C16:the S-variant returns but Fprint panics: %s", pmF))
					}
				}
				if pmR := safely(func() {
					for mode := 0; mode < 4; mode++ {
						w := &recWriter{mode: mode}
						var nn int
						var err error
						if c.f == "" {
							nn, err = redact.Fprint(w, args...)
						} else {
							nn, err = redact.Fprintf(w, c.f, args...)
						}
						if len(w.calls) != 1 || !bytes.Equal(w.calls[0], s) {
							orc = append(orc, fmt.Sprintf("C16:F-variant did not deliver the S-variant's bytes in a single Write: %q vs %q", w.calls, s))
						}
						wantN, wantErr := len(s), error(nil)
						if mode == 1 {
							wantN, wantErr = 0, errWriter
						} else if mode == 2 {
							wantN, wantErr = len(s)/2, io.ErrShortWrite
						}
						if nn != wantN || err != wantErr {
							orc = append(orc, fmt.Sprintf("C16:F-variant returned (%d,%v), writer said (%d,%v)", nn, err, wantN, wantErr))
						}
					}
					var sb redact.StringBuilder
					var viaN, viaF redact.RedactableString
					if c.f == "" {
						sb.Print(args...)
						viaN = redact.Sprintfn(func(w redact.SafePrinter) { w.Print(args...) })
					} else {
						sb.Printf(c.f, args...)
						viaN = redact.Sprintfn(func(w redact.SafePrinter) { w.Printf(c.f, args...) })
					}
					viaF = redact.Sprint(viaSF{c.f, args})
					m := mergeAdj(s)
					if got := mergeAdj([]byte(sb.RedactableString())); !bytes.Equal(got, m) {
						orc = append(orc, fmt.Sprintf("C16:StringBuilder route differs: %q vs %q", got, m))
					}
					if got := mergeAdj([]byte(viaN)); !bytes.Equal(got, m) {
						orc = append(orc, fmt.Sprintf("C16:SafePrinter route (Sprintfn) differs: %q vs %q", got, m))
					}
					if got := mergeAdj([]byte(viaF)); !bytes.Equal(got, m) {
						orc = append(orc, fmt.Sprintf("C16:SafePrinter route (SafeFormat) differs: %q vs %q", got, m))
					}
					// the SafeFormat method is reached under an arbitrary directive (flags, width, precision of the
					// *outer* verb are no business of the nested call), at top level and after a sibling in a slice
					od := []string{"%v", "%+v", "%#v", "%8v", "%-8v", "%08v", "%.1v", "% v", "%s", "%d", "%+x", "%12.3q", "%#-9.2s", "%[1]v"}[r.Intn(14)]
					if got := mergeAdj([]byte(redact.Sprintf(od, viaSF{c.f, args}))); !bytes.Equal(got, m) {
						orc = append(orc, fmt.Sprintf("C16:SafePrinter route (SafeFormat reached under %s) differs: %q vs %q", od, got, m))
					}
					{
						want := append(append([]byte("[seven "), m...), ']')
						if got := mergeAdj([]byte(redact.Sprintf("%v", []interface{}{redact.Safe("seven"), viaSF{c.f, args}}))); !bytes.Equal(got, mergeAdj(want)) {
							orc = append(orc, fmt.Sprintf("C16:SafePrinter route (SafeFormat in a slice) differs: %q vs %q", got, want))
						}
					}
				}); pmR != "" {
					orc = append(orc, "C16:the S-variant returns but another route panics: "+pmR)
				}
				emit(Case{Real: c.desc() + " => " + string(s), Oracle: orc, Nontriv: hasMarker(s), Kind: kindOf(c)})
			}
		})
}

// --------------------------------------------------------------- C17

type wrapErr struct {
	msg   string
	cause error
}

func (w wrapErr) Error() string { return w.msg + ": " + w.cause.Error() }
func (w wrapErr) Unwrap() error { return w.cause }

type nilRecvErr struct{ s string }

func (e *nilRecvErr) Error() string { return e.s }

type sfErr struct{ s string }

func (e sfErr) Error() string                           { return "sfErr:" + e.s }
func (e sfErr) SafeFormat(p redact.SafePrinter, _ rune) { p.SafeString("SFERR"); p.UnsafeString(e.s) }

// sfErrW: an error that is a SafeFormatter whose SafeFormat prints its cause through a nested
// Printf that itself uses %w (a nested call is a Sprintf-like call: %w is a bad verb there and
// must neither capture nor cancel anything in the enclosing HelperForErrorf call)
type sfErrW struct{ cause error }

func (e sfErrW) Error() string { return "sfErrW:" + e.cause.Error() }
func (e sfErrW) SafeFormat(p redact.SafePrinter, _ rune) {
	p.Printf("op failed: %w", e.cause)
}

func streamHook(rep *Report, tier string, seed uint64) {
	RunStream(rep, "P-errorhook", true, "7 error kinds x positions {top, %w via HelperForErrorf, slice, map value, exported field, unexported field, interface, Unsafe, Safe} x 8 directives x hook {absent, plain, panicking}", false, 1,
		func(sh, ns int, emit func(Case)) {
			defer redact.RegisterRedactErrorFn(nil)
			resetRegistry()
			errs := map[string]error{
				"plain":    errors.New("pl‹ain"),
				"wrapping": wrapErr{"outer", errors.New("inner")},
				"nilrecv":  (*nilRecvErr)(nil),
				"stringer": errStrg{"es"},
				"formattr": errFmtr{"ef"},
				"safefmt":  sfErr{"sf"},
				"multiln":  errors.New("l1\nl2"),
			}
			var seen []string
			hook := func(err error, p redact.SafePrinter, verb rune) {
				seen = append(seen, fmt.Sprintf("%T/%c", err, verb))
				p.SafeString("HK<")
				p.UnsafeString(safeErrText(err))
				p.SafeRune(redact.SafeRune(verb))
				p.SafeString(">")
			}
			panicHook := func(err error, p redact.SafePrinter, verb rune) {
				p.SafeString("HK<")
				panic("hookboom")
			}
			for name, e := range errs {
				for _, d := range []string{"%v", "%s", "%+v", "%#v", "%d", "%q", "%x", "%8v"} {
					for _, pos := range []string{"top", "w", "slice", "mapval", "field", "ufield", "unsafe", "safe", "panicval", "panicval-in-slice", "sibling"} {
						for _, hk := range []int{0, 1, 2} {
							switch hk {
							case 0:
								redact.RegisterRedactErrorFn(nil)
							case 1:
								redact.RegisterRedactErrorFn(hook)
							case 2:
								redact.RegisterRedactErrorFn(panicHook)
							}
							seen = nil
							var arg interface{} = e
							f := "A:" + d + ":B"
							var before []interface{}
							switch pos {
							case "sibling":
								// the error is the last operand of a call whose earlier operands went through the other
								// exits of the printer: a bad verb on nil, a bad verb on an int, a missing operand index,
								// a panicking Stringer, a Safe() wrapper, a SafeFormatter
								f = "A:%z %[9]v %v %s %v %d " + d + ":B"
								before = []interface{}{5, panicWith{"pw"}, redact.Safe("sv"), sfErr{"sib"}, nil}
							case "slice":
								arg = []interface{}{e}
							case "mapval":
								arg = map[string]interface{}{"k": e}
							case "field":
								arg = inner{A: e}
							case "ufield":
								arg = inner{b: e}
							case "panicval":
								// the error is the value a String method panics with: catchPanic prints it
								// through ordinary method dispatch
								arg = panicWith{e}
							case "panicval-in-slice":
								arg = []interface{}{1, panicWith{e}}
							case "unsafe":
								arg = redact.Unsafe(e)
							case "safe":
								arg = redact.Safe(e)
							}
							if strings.HasPrefix(pos, "panicval") && (hk == 2 || d == "%#v" || d == "%d") {
								// String is not called under %#v or %d;
								// a panic while a panic is being reported propagates, as in fmt
								continue
							}
							var out []byte
							var pm string
							d := d // (the %w position rewrites it for the checks below)
							if pos == "w" {
								// %w spelled plainly, with a width, and with an explicit argument index
								wf, ok := map[string]string{"%v": "A:%w:B", "%8v": "A:%8w:B", "%s": "A:%[1]w:B", "%q": "A:%.9w:B"}[d]
								if !ok {
									continue
								}
								pm = safely(func() {
									var s redact.RedactableString
									if strings.Contains(wf, "[2]") {
										s, _ = redact.HelperForErrorf(wf, e, 7)
									} else {
										s, _ = redact.HelperForErrorf(wf, e)
									}
									out = []byte(s)
								})
								d = "%v"
							} else {
								out, pm = rSprintf(f, append(before, arg))
							}
							var orc []string
							isSF := name == "safefmt"
							verb := rune(d[len(d)-1])
							if pm != "" {
								orc = append(orc, "C17:print panicked: "+pm)
							} else {
								if e := wflErr(out); e != "" {
									orc = append(orc, wfTag(e)+e)
								}
								hookExpected := hk == 1 && !isSF && pos != "unsafe" && pos != "ufield"
								if pos == "ufield" {
									// unexported fields cannot be interfaced: no method dispatch at all
								}
								if hk == 1 {
									if hookExpected && len(seen) == 0 {
										orc = append(orc, fmt.Sprintf("C17:hook installed but not called for %s at %s under %q: %q", name, pos, d, out))
									}
									if !hookExpected && len(seen) != 0 {
										orc = append(orc, fmt.Sprintf("C17:hook called although it must be bypassed (%s at %s): %q", name, pos, out))
									}
									if hookExpected && len(seen) > 0 {
										wantVerb := verb
										if pos == "w" || strings.HasPrefix(pos, "panicval") {
											wantVerb = 'v'
										}
										if !strings.HasSuffix(seen[0], "/"+string(wantVerb)) {
											orc = append(orc, fmt.Sprintf("C17:hook received verb %s, want %c", seen[0], wantVerb))
										}
										// rendered solely by the hook: safe parts visible, unsafe part enveloped
										if pos == "top" || pos == "w" {
											mid := out[2 : len(out)-2]
											want := "HK<‹" + string(escQ([]byte(safeErrText(e)))) + "›" + string(wantVerb) + ">"
											want = strings.ReplaceAll(want, "‹›", "")
											if name != "multiln" && string(mid) != want {
												orc = append(orc, fmt.Sprintf("C17:error not rendered solely by the hook: got %q want %q", mid, want))
											}
										}
									}
								}
								if pos == "unsafe" {
									mid := out[2 : len(out)-2]
									if len(bytes.Trim(dropEnvs(mid), "\n")) != 0 {
										orc = append(orc, fmt.Sprintf("C17:error under Unsafe() not fully enveloped: %q", mid))
									}
									if bytes.Contains(out, []byte("HK<")) {
										orc = append(orc, "C17:hook output present under Unsafe()")
									}
								}
								if hk == 2 && !isSF && (pos == "top" || pos == "slice") {
									// the text before and after the report is intact, and the report is all there is: what the hook
									// wrote before panicking, then one %!verb(PANIC=…) — or <nil> for a nil receiver — and nothing more
									rep := "%!" + string(verb) + "(PANIC=SafeFormatter method: ‹hookboom›)"
									if name == "nilrecv" {
										rep = "<nil>"
									}
									want := "A:HK<" + rep + ":B"
									if pos == "slice" {
										want = "A:[HK<" + rep + "]:B"
									}
									if string(out) != want && !strings.ContainsAny(d, "#+0123456789") {
										orc = append(orc, fmt.Sprintf("C11:a panic in the error hook is not reported in place and once: got %q want %q", out, want))
									}
								}
								if hk == 2 && !isSF && pos != "unsafe" && pos != "ufield" && name != "nilrecv" {
									if !bytes.Contains(out, []byte("PANIC=")) || !bytes.HasPrefix(out, []byte("A:")) || !bytes.HasSuffix(out, []byte(":B")) {
										orc = append(orc, fmt.Sprintf("C17:panic in hook not contained in place: %q", out))
									}
								}
							}
							emit(Case{Real: fmt.Sprintf("hook=%d %s at %s %q => %s", hk, name, pos, d, out), Oracle: orc, Nontriv: true, Kind: "hook" + fmt.Sprint(hk) + ":" + pos})
						}
					}
				}
			}
		})
}

type panicWith struct{ v interface{} }

func (p panicWith) String() string { panic(p.v) }

func safeErrText(err error) (s string) {
	defer func() {
		if recover() != nil {
			s = "<nil>"
		}
	}()
	return err.Error()
}

// --------------------------------------------------------------- nested printers left by a panic (C01, C11)

// npZ: a panic value whose own rendering panics (so that catchPanic re-raises).
type npZ struct{ where string }

func (z npZ) String() string {
	if z.where == "String" {
		panic("boom‹z")
	}
	return "z"
}
func (z npZ) Format(st fmt.State, verb rune) {
	if z.where == "Format" {
		panic(errors.New("fboom"))
	}
	fmt.Fprint(st, "Z")
}

type npZSafe struct{}

func (npZSafe) SafeFormat(p redact.SafePrinter, _ rune) { p.SafeString("zs"); panic("sfboom") }

// npY: panics with a payload.
type npY struct{ pl interface{} }

func (y npY) String() string { panic(y.pl) }

// npX: a SafeFormatter that writes, prints operands through the nested printer, writes again.
type npX struct {
	pre, post int
	printf    bool
	args      []interface{}
}

func npWrite(p redact.SafePrinter, k int) {
	switch k {
	case 1:
		p.UnsafeString("abcd")
	case 2:
		p.SafeString("safe")
	case 3:
		p.UnsafeString("ab\n")
	case 4:
		p.UnsafeString("")
	}
}

func (x npX) SafeFormat(p redact.SafePrinter, _ rune) {
	npWrite(p, x.pre)
	if x.printf {
		p.Printf("%v|%v", x.args...)
	} else {
		p.Print(x.args...)
	}
	npWrite(p, x.post)
}

func streamNestedPanics(rep *Report, tier string, seed uint64) {
	RunStream(rep, "P-nested-panics", true, "SafeFormat methods that write {nothing, unsafe, safe, unsafe+LF, empty unsafe}, call Print/Printf on 4 operand lists containing a value that panics with a payload whose own rendering panics (String/Format/SafeFormat) or not, write again; 6 outer routes", false, 1,
		func(sh, ns int, emit func(Case)) {
			resetRegistry()
			payloads := []interface{}{npZ{"String"}, npZ{"Format"}, npZSafe{}, npZ{"none"}, "plain", npY{npZ{"String"}}}
			for _, pl := range payloads {
				y := npY{pl}
				argLists := [][]interface{}{{y}, {"ef", y}, {y, "gh"}, {[]interface{}{1, y}, "t"}}
				for ai, al := range argLists {
					for pre := 0; pre <= 4; pre++ {
						for post := 0; post <= 2; post++ {
							for _, pf := range []bool{false, true} {
								x := npX{pre, post, pf, al}
								for route := 0; route < 6; route++ {
									var out []byte
									pm := safely(func() {
										switch route {
										case 0:
											out = []byte(redact.Sprint(x))
										case 1:
											out = []byte(redact.Sprintf("a %v b", x))
										case 2:
											out = []byte(redact.Sprint([]interface{}{x, 1}))
										case 3:
											out = []byte(redact.Sprintfn(func(w redact.SafePrinter) { w.Print("o", x) }))
										case 4:
											var sb redact.StringBuilder
											sb.UnsafeString("u")
											sb.Print(x)
											out = []byte(sb.RedactableString())
										case 5:
											out = []byte(redact.Sprint(npX{1, 1, false, []interface{}{x}}))
										}
									})
									var orc []string
									if pm != "" {
										orc = append(orc, "C11:a panic raised inside a nested printer escaped the print call: "+pm)
									} else {
										if e := wflErr(out); e != "" {
											orc = append(orc, wfTag(e)+"output after a panic left a nested printer is not well-formed: "+e+fmt.Sprintf(" %q", out))
										}
										if !bytes.Contains(out, []byte("PANIC=")) {
											orc = append(orc, fmt.Sprintf("C11:panic report missing: %q", out))
										}
										st := stripOnce(out)
										if pre == 1 && !bytes.Contains(st, []byte("abcd")) {
											orc = append(orc, fmt.Sprintf("C11:text written before the nested print was lost: %q", out))
										}
										if pre == 2 && !bytes.Contains(dropEnvs(out), []byte("safe")) {
											orc = append(orc, fmt.Sprintf("C11:safe text written before the nested print was lost: %q", out))
										}
										if bytes.Contains(dropEnvs(out), []byte("abcd")) || bytes.Contains(dropEnvs(out), []byte("boom")) {
											orc = append(orc, fmt.Sprintf("C05:unsafe text outside envelopes: %q", out))
										}
									}
									emit(Case{Real: fmt.Sprintf("payload#%T args#%d pre=%d post=%d printf=%v route=%d => %q", pl, ai, pre, post, pf, route, out), Oracle: orc, Nontriv: true, Kind: fmt.Sprintf("route%d", route)})
								}
							}
						}
					}
				}
			}
		})
}
