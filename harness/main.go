package main

import (
	"fmt"
	"os"
	"strconv"
	"time"
)

type streamFn func(rep *Report, tier string, seed uint64)

// which streams serve which property
var propStreams = map[string][]streamFn{}

func register(prop string, fs ...streamFn) { propStreams[prop] = append(propStreams[prop], fs...) }

func init() {
	register("C07", streamMarkers)
	register("C10", streamEscape, streamSplits)
	register("C09", streamSplits)
	register("C01", streamBuffer, streamEscape)
	register("C03", streamBuffer, streamEscape)
	register("C09", streamBuffer)
	register("C13", streamBuffer)
	register("C01", streamPrinterWF, streamCompose)
	register("C03", streamPrinterWF)
	register("C11", streamTotality, streamPrinterWF, streamStars, streamNestedPanics, streamHook)
	register("C01", streamNestedPanics)
	register("PM", streamPrinterModel)
	for _, p := range []string{"C01", "C02", "C04", "C05", "C06", "C08", "C09", "C11", "C12", "C15", "C16", "C17"} {
		register(p, streamPrinterModel)
	}
	register("C02", streamNI)
	register("C04", streamFidelity, streamStars, streamPrinterPlain)
	register("C05", streamEnvelopes)
	register("C06", streamWrappers)
	register("C08", streamCompose)
	register("C12", streamHistories)
	register("C14", streamForward)
	register("C15", streamErrorf)
	register("C16", streamRoutes)
	register("C17", streamHook)
}

// usage: harness <property> <tier> <seed> <driver-path> <report.json>
func main() {
	if len(os.Args) == 2 && os.Args[1] == "probes" {
		printProbes()
		return
	}
	if len(os.Args) < 6 {
		fmt.Fprintln(os.Stderr, "usage: harness <property> <quick|thorough> <seed> <driver> <report.json>")
		os.Exit(2)
	}
	prop, tier := os.Args[1], os.Args[2]
	seed, _ := strconv.ParseUint(os.Args[3], 10, 64)
	driverPath = os.Args[4]
	rep := &Report{Property: prop, Tier: tier, Seed: seed, Disagreements: []Disagreement{}, OracleFails: []OracleFail{}}
	fs, ok := propStreams[prop]
	if !ok {
		fmt.Fprintln(os.Stderr, "no streams for", prop)
		os.Exit(2)
	}
	t0 := time.Now()
	for _, f := range fs {
		f(rep, tier, seed)
	}
	rep.Notes = append(rep.Notes, fmt.Sprintf("total wall %.1fs", time.Since(t0).Seconds()))
	rep.Write(os.Args[5])
	fmt.Printf("harness %s %s: streams=%d disagreements=%d oracle_fails=%d\n", prop, tier, len(rep.Streams), rep.NDisagree, rep.NOracleFail)
}
