package main

import (
	"bufio"
	"encoding/hex"
	"encoding/json"
	"fmt"
	"io"
	"os"
	"os/exec"
	"sort"
	"strings"
	"sync"
	"time"
)

// ---------------------------------------------------------------- PRNG

// Rng is splitmix64; every random choice of a run derives from one seed.
type Rng struct{ s uint64 }

func NewRng(seed uint64) *Rng {
	r := &Rng{s: seed ^ 0x5DEECE66D1234567}
	// decorrelate neighbouring seeds (shards use seed*1000+shard)
	r.s = r.Next() ^ (seed * 0xD6E8FEB86659FD93)
	r.s = r.Next()
	return r
}

func (r *Rng) Next() uint64 {
	r.s += 0x9E3779B97F4A7C15
	z := r.s
	z = (z ^ (z >> 30)) * 0xBF58476D1CE4E5B9
	z = (z ^ (z >> 27)) * 0x94D049BB133111EB
	return z ^ (z >> 31)
}
func (r *Rng) Intn(n int) int {
	if n <= 0 {
		return 0
	}
	return int(r.Next() % uint64(n))
}
func (r *Rng) Bool() bool        { return r.Next()&1 == 1 }
func (r *Rng) Fork() *Rng        { return &Rng{s: r.Next()} }
func (r *Rng) Pick(n int) int    { return r.Intn(n) }
func (r *Rng) Chance(p int) bool { return r.Intn(100) < p }

// ---------------------------------------------------------------- hex

func hx(b []byte) string {
	if len(b) == 0 {
		return "-"
	}
	return hex.EncodeToString(b)
}
func unhx(s string) []byte {
	if s == "-" {
		return nil
	}
	b, err := hex.DecodeString(s)
	if err != nil {
		panic("bad hex " + s)
	}
	return b
}

// ---------------------------------------------------------------- driver

// Driver is one model process speaking the line protocol.
type Driver struct {
	cmd *exec.Cmd
	in  *bufio.Writer
	out *bufio.Reader
	wc  io.WriteCloser
}

var driverPath string

func StartDriver() *Driver {
	cmd := exec.Command(driverPath)
	wc, err := cmd.StdinPipe()
	if err != nil {
		panic(err)
	}
	rc, err := cmd.StdoutPipe()
	if err != nil {
		panic(err)
	}
	cmd.Stderr = os.Stderr
	if err := cmd.Start(); err != nil {
		panic(err)
	}
	return &Driver{cmd: cmd, in: bufio.NewWriterSize(wc, 1<<20), out: bufio.NewReaderSize(rc, 1<<20), wc: wc}
}

// AskAll sends all lines and returns all answers (pipelined).
func (d *Driver) AskAll(lines []string) []string {
	res := make([]string, len(lines))
	var wg sync.WaitGroup
	wg.Add(1)
	go func() {
		defer wg.Done()
		for i := range lines {
			s, err := d.out.ReadString('\n')
			if err != nil {
				for j := i; j < len(lines); j++ {
					res[j] = "driver-eof"
				}
				return
			}
			res[i] = strings.TrimRight(s, "\n")
		}
	}()
	for _, l := range lines {
		d.in.WriteString(l)
		d.in.WriteByte('\n')
	}
	d.in.WriteString("#flush\n")
	d.in.Flush()
	wg.Wait()
	return res
}

func (d *Driver) Close() {
	d.wc.Close()
	d.cmd.Wait()
}

// ---------------------------------------------------------------- report

// Case is one generated case: the line sent to the model, what the real
// code answered, and property-oracle failures observed on the real code.
type Case struct {
	Line    string   // protocol line (also the replay)
	Real    string   // canonical answer of the real code
	Oracle  []string // oracle failures on the real code (empty = ok)
	Nontriv bool
	Kind    string // for the distribution
}

type Disagreement struct {
	Stream string `json:"stream"`
	Line   string `json:"line"`
	Real   string `json:"real"`
	Model  string `json:"model"`
}

type OracleFail struct {
	Stream string `json:"stream"`
	Line   string `json:"line"`
	Real   string `json:"real,omitempty"`
	What   string `json:"what"`
	Site   string `json:"site,omitempty"` // identifies a known finding class
}

type StreamStat struct {
	Name        string         `json:"name"`
	Evaluations int            `json:"evaluations"`
	Nontrivial  int            `json:"distinct_nontrivial"`
	Exhaustive  bool           `json:"exhaustive"`
	Bound       string         `json:"bound,omitempty"`
	Dist        map[string]int `json:"distribution,omitempty"`
	Samples     []string       `json:"samples"`
	ModelCmp    int            `json:"compared_with_model"`
	ModelSkip   int            `json:"model_unsupported"`
	WallS       float64        `json:"wall_s"`
}

type Report struct {
	Property      string         `json:"property"`
	Tier          string         `json:"tier"`
	Seed          uint64         `json:"seed"`
	Streams       []StreamStat   `json:"streams"`
	Disagreements []Disagreement `json:"disagreements"`
	OracleFails   []OracleFail   `json:"oracle_fails"`
	NDisagree     int            `json:"n_disagreements"`
	NOracleFail   int            `json:"n_oracle_fails"`
	FailsBySite   map[string]int `json:"fails_by_site"`
	keptByClass   map[string]int
	Notes         []string `json:"notes,omitempty"`
	mu            sync.Mutex
}

const maxKeep = 40

func (r *Report) addDis(d Disagreement) {
	r.mu.Lock()
	r.NDisagree++
	if len(r.Disagreements) < maxKeep {
		r.Disagreements = append(r.Disagreements, d)
	}
	r.mu.Unlock()
}
func (r *Report) addFail(f OracleFail) {
	r.mu.Lock()
	r.NOracleFail++
	if r.FailsBySite == nil {
		r.FailsBySite = map[string]int{}
	}
	// keep up to maxKeep examples per site ("" = not attributed to a known class),
	// so that known findings can never crowd out a fresh violation
	// ... and per (site, stream, property tag of the message): the failures of one oracle
	// (say, well-formedness, tagged C01) must not crowd out those of another (C05's extents)
	tag := ""
	if len(f.What) > 4 && f.What[0] == 'C' && f.What[3] == ':' {
		tag = f.What[:3]
	}
	if r.keptByClass == nil {
		r.keptByClass = map[string]int{}
	}
	key := f.Site + "|" + f.Stream + "|" + tag
	if r.keptByClass[key] < maxKeep {
		r.OracleFails = append(r.OracleFails, f)
		r.keptByClass[key]++
	}
	r.FailsBySite[f.Site]++
	r.mu.Unlock()
}

// Stream runs a generator through the real code and the model.
// gen is called once per shard with (shard, nshards) and emits cases through
// the callback; cases with an empty Line are oracle-only (no model comparison).
type GenFn func(shard, nshards int, emit func(Case))

var deadline time.Time

func RunStream(rep *Report, name string, exhaustive bool, bound string, withModel bool, nshards int, gen GenFn) {
	t0 := time.Now()
	st := StreamStat{Name: name, Exhaustive: exhaustive, Bound: bound, Dist: map[string]int{}}
	var mu sync.Mutex
	distinct := map[string]struct{}{}
	var wg sync.WaitGroup
	for sh := 0; sh < nshards; sh++ {
		wg.Add(1)
		go func(sh int) {
			defer wg.Done()
			var drv *Driver
			if withModel {
				drv = StartDriver()
				defer drv.Close()
			}
			batch := make([]Case, 0, 4096)
			lines := make([]string, 0, 4096)
			flush := func() {
				if len(batch) == 0 {
					return
				}
				var ans []string
				if withModel && len(lines) > 0 {
					ans = drv.AskAll(lines)
				}
				mu.Lock()
				li := 0
				for _, c := range batch {
					st.Evaluations++
					st.Dist[c.Kind]++
					if c.Nontriv {
						key := c.Line
						if key == "" {
							key = c.Real
						}
						if len(distinct) < 2000000 {
							distinct[key] = struct{}{}
						}
					}
					if len(st.Samples) < 8 && (st.Evaluations%97 == 1 || c.Nontriv && len(st.Samples) < 4) {
						st.Samples = append(st.Samples, c.Line+" => "+c.Real)
					}
					if c.Line != "" && withModel {
						if ans[li] == "unsupported" || ans[li] == "fuel" {
							// the model declares the case outside its universe (a leaf rendering the
							// oracle table lacks, an unmodelled path): counted, not compared
							st.ModelSkip++
							li++
							continue
						}
						st.ModelCmp++
						if ans[li] != c.Real {
							rep.addDis(Disagreement{name, c.Line, c.Real, ans[li]})
						}
						li++
					}
					for _, o := range c.Oracle {
						site := ""
						if i := strings.Index(o, "@@"); i >= 0 {
							site, o = o[:i], o[i+2:]
						}
						rep.addFail(OracleFail{name, c.Line, c.Real, o, site})
					}
				}
				mu.Unlock()
				batch = batch[:0]
				lines = lines[:0]
			}
			gen(sh, nshards, func(c Case) {
				batch = append(batch, c)
				if c.Line != "" && withModel {
					lines = append(lines, c.Line)
				}
				if len(batch) >= 4096 {
					flush()
				}
			})
			flush()
		}(sh)
	}
	wg.Wait()
	st.Nontrivial = len(distinct)
	st.WallS = time.Since(t0).Seconds()
	if len(st.Samples) == 0 {
		st.Samples = []string{}
	}
	rep.mu.Lock()
	rep.Streams = append(rep.Streams, st)
	rep.mu.Unlock()
}

// RunStreamFiltered: a model-compared stream whose model may answer "unsupported".
func RunStreamFiltered(rep *Report, name string, exhaustive bool, bound string, nshards int, gen GenFn) {
	RunStream(rep, name, exhaustive, bound, true, nshards, gen)
}

func (r *Report) Write(path string) {
	sort.Slice(r.Streams, func(i, j int) bool { return r.Streams[i].Name < r.Streams[j].Name })
	f, err := os.Create(path)
	if err != nil {
		panic(err)
	}
	defer f.Close()
	enc := json.NewEncoder(f)
	enc.SetIndent("", " ")
	enc.Encode(r)
}

// safely runs f and converts a panic into a string.
func safely(f func()) (panicMsg string) {
	defer func() {
		if e := recover(); e != nil {
			// the panic value may itself panic when printed
			panicMsg = func() (m string) {
				defer func() {
					if recover() != nil {
						m = fmt.Sprintf("PANIC(%T)", e)
					}
				}()
				return fmt.Sprintf("PANIC(%v)", e)
			}()
		}
	}()
	f()
	return ""
}
