module github.com/cockroachdb/redact/verifharness

go 1.14

require github.com/cockroachdb/redact v0.0.0

replace github.com/cockroachdb/redact => /repo
