package main

import (
	"bytes"
	"fmt"
	"unicode/utf8"
)

// Independent (Go-side) token scanner and property oracles. These do not use
// the Lean model; they judge outputs of the real code directly.

var (
	startM   = []byte("‹")
	endM     = []byte("›")
	redacted = []byte("‹×›")
)

type gtok struct {
	k byte // 's', 'e', 'b'
	b byte
}

func gtokens(p []byte) []gtok {
	var r []gtok
	for i := 0; i < len(p); {
		if i+3 <= len(p) && p[i] == 0xE2 && p[i+1] == 0x80 && (p[i+2] == 0xB9 || p[i+2] == 0xBA) {
			if p[i+2] == 0xB9 {
				r = append(r, gtok{'s', 0})
			} else {
				r = append(r, gtok{'e', 0})
			}
			i += 3
		} else {
			r = append(r, gtok{'b', p[i]})
			i++
		}
	}
	return r
}

// wfl: strict alternation, closed at the end, no line feed inside envelopes.
func wflErr(p []byte) string {
	open := false
	for i, t := range gtokens(p) {
		switch t.k {
		case 's':
			if open {
				return fmt.Sprintf("nested start marker at token %d", i)
			}
			open = true
		case 'e':
			if !open {
				return fmt.Sprintf("end marker without start at token %d", i)
			}
			open = false
		default:
			if open && t.b == '\n' {
				return fmt.Sprintf("line feed inside envelope at token %d", i)
			}
		}
	}
	if open {
		return "envelope left open"
	}
	return ""
}

func hasMarker(p []byte) bool {
	return bytes.Contains(p, startM) || bytes.Contains(p, endM)
}

// escQ replaces every marker occurrence by '?'.
func escQ(p []byte) []byte {
	var r []byte
	for _, t := range gtokens(p) {
		if t.k == 'b' {
			r = append(r, t.b)
		} else {
			r = append(r, '?')
		}
	}
	return r
}

// stripOnce removes exactly the marker occurrences of p.
func stripOnce(p []byte) []byte {
	var r []byte
	for _, t := range gtokens(p) {
		if t.k == 'b' {
			r = append(r, t.b)
		}
	}
	return r
}

// dropEnvs deletes every envelope (well-formed input assumed).
func dropEnvs(p []byte) []byte {
	var r []byte
	open := false
	for _, t := range gtokens(p) {
		switch t.k {
		case 's':
			open = true
		case 'e':
			open = false
		default:
			if !open {
				r = append(r, t.b)
			}
		}
	}
	return r
}

// envContents returns the content of each envelope.
func envContents(p []byte) [][]byte {
	var r [][]byte
	var cur []byte
	open := false
	for _, t := range gtokens(p) {
		switch t.k {
		case 's':
			open = true
			cur = []byte{}
		case 'e':
			if open {
				r = append(r, cur)
			}
			open = false
		default:
			if open {
				cur = append(cur, t.b)
			}
		}
	}
	return r
}

func countEnv(p []byte) int { return len(envContents(p)) }

func onlyLF(p []byte) []byte {
	var r []byte
	for _, c := range p {
		if c == '\n' {
			r = append(r, c)
		}
	}
	return r
}

func tailBadGo(p []byte) bool {
	r, s := utf8.DecodeLastRune(p)
	return s == 1 && r == utf8.RuneError
}

// perLine checks C03 on one output: every line well-formed; redact/strip
// commute with splitting on line feeds.
func perLineErr(out []byte, redactF, stripF func([]byte) []byte) string {
	lines := bytes.Split(out, []byte("\n"))
	var rl, sl [][]byte
	for i, l := range lines {
		if e := wflErr(l); e != "" {
			return fmt.Sprintf("line %d not well-formed: %s", i, e)
		}
		rl = append(rl, redactF(append([]byte(nil), l...)))
		sl = append(sl, stripF(append([]byte(nil), l...)))
	}
	if !bytes.Equal(bytes.Join(rl, []byte("\n")), redactF(append([]byte(nil), out...))) {
		return "redact(whole) != join(redact(lines))"
	}
	if !bytes.Equal(bytes.Join(sl, []byte("\n")), stripF(append([]byte(nil), out...))) {
		return "strip(whole) != join(strip(lines))"
	}
	return ""
}

// wfTag attributes a well-formedness failure: a line feed inside an envelope is
// a C03 violation, broken alternation a C01 violation.
func wfTag(e string) string {
	if len(e) >= 9 && e[:9] == "line feed" {
		return "C03:"
	}
	return "C01:"
}
