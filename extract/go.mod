module github.com/cockroachdb/redact/verifextract

go 1.23

require github.com/cockroachdb/redact v0.0.0

replace github.com/cockroachdb/redact => /repo
