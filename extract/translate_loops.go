// Loop mode of the Go -> Lean translator: functions with `for` loops over byte
// slices and integer indexes (internal/escape/escape.go). All local variables
// of the function become fields of one structure `<Fn>.Vars`; statements are
// state transformers in the `Option` monad (`none` = a Go panic — index or
// slice out of range — or a loop that ran out of fuel); every loop becomes a
// recursive function on a fuel argument. Before each statement the translator
// asserts the *definedness* of the expressions the statement evaluates (index
// and slice bounds, with Go's short-circuit rule for && and ||), so that a
// theorem `translated = some (model …)` also says: no panic, fuel sufficient.
package main

import (
	"fmt"
	"go/ast"
	"go/token"
	"strconv"
	"strings"
)

type lpCtx struct {
	fset   *token.FileSet
	fn     string
	names  map[*ast.Object]string // variable -> field name
	types  map[string]ltype       // field name -> type
	order  []string               // field order
	used   map[string]int         // base name -> count (shadowing)
	consts map[string]string
	cints  map[string]int64
	loops  []string // emitted loop definitions (inner first)
	nloop  int
	bad    []string
	result string // named result field (single-result functions)
	results []string // all named result fields, in order
	retFlag bool     // the function returns from inside a loop: field ret_ is set, and tested after every loop
	inLoop  int
	fuelOn  string // the bytes-typed parameter whose length bounds every loop
	callees map[string]lpCallee
	ntmp    int
}

// lpCallee: a function translated earlier that this one may call.
type lpCallee struct {
	lean   string  // Lean name
	params []ltype
	rets   []ltype
	option bool // loop-mode callee: Option-valued (a panic or exhausted fuel is none)
}

func (c *lpCtx) fail(what string, n ast.Node) string {
	pos := ""
	if n != nil {
		pos = c.fset.Position(n.Pos()).String()
	}
	c.bad = append(c.bad, what+" at "+pos)
	return fmt.Sprintf("(untranslatable %s)", strconv.Quote(what))
}

func (c *lpCtx) declare(id *ast.Ident, t ltype) string {
	if id.Name == "_" {
		return "_"
	}
	if id.Obj != nil {
		if n, ok := c.names[id.Obj]; ok {
			if c.types[n] == tUnknown && t != tUnknown {
				c.types[n] = t
			}
			return n
		}
	}
	base := leanFieldName(id.Name)
	n := base
	if k := c.used[base]; k > 0 {
		n = fmt.Sprintf("%s_%d", base, k)
	}
	c.used[base]++
	if id.Obj != nil {
		c.names[id.Obj] = n
	}
	c.types[n] = t
	c.order = append(c.order, n)
	return n
}

func leanFieldName(n string) string {
	switch n {
	case "end", "from", "at", "then", "do", "open", "fun", "match", "with", "if", "else", "let", "have", "show", "by", "in":
		return n + "'"
	}
	return n
}

func (c *lpCtx) field(id *ast.Ident) (string, bool) {
	if id.Obj != nil {
		if n, ok := c.names[id.Obj]; ok {
			return n, true
		}
	}
	return "", false
}

func (c *lpCtx) typeOf(e ast.Expr) ltype {
	switch x := e.(type) {
	case *ast.ParenExpr:
		return c.typeOf(x.X)
	case *ast.Ident:
		if n, ok := c.field(x); ok {
			return c.types[n]
		}
		if x.Name == "true" || x.Name == "false" {
			return tBool
		}
	case *ast.BasicLit:
		if x.Kind == token.STRING {
			return tBytes
		}
	case *ast.SelectorExpr:
		if id, ok := x.X.(*ast.Ident); ok {
			q := id.Name + "." + x.Sel.Name
			if _, ok := c.consts[q]; ok {
				return tBytes
			}
			if _, ok := c.cints[q]; ok {
				return tInt
			}
		}
	case *ast.IndexExpr:
		return tByte
	case *ast.SliceExpr:
		return tBytes
	case *ast.UnaryExpr:
		if x.Op == token.NOT {
			return tBool
		}
		return c.typeOf(x.X)
	case *ast.BinaryExpr:
		switch x.Op {
		case token.LAND, token.LOR, token.EQL, token.NEQ, token.LSS, token.LEQ, token.GTR, token.GEQ:
			return tBool
		}
		if t := c.typeOf(x.X); t != tUnknown {
			return t
		}
		return c.typeOf(x.Y)
	case *ast.CallExpr:
		if id, ok := x.Fun.(*ast.Ident); ok {
			switch id.Name {
			case "len", "cap", "int":
				return tInt
			case "append", "make":
				return tBytes
			}
			if ce, ok := c.callees[id.Name]; ok && !ce.option && len(ce.rets) == 1 {
				return ce.rets[0]
			}
		}
		if se, ok := x.Fun.(*ast.SelectorExpr); ok {
			if id, ok := se.X.(*ast.Ident); ok {
				switch id.Name + "." + se.Sel.Name {
				case "bytes.HasSuffix", "bytes.Equal":
					return tBool
				}
			}
		}
	}
	return tUnknown
}

func (c *lpCtx) lit(x *ast.BasicLit, want ltype) string {
	switch x.Kind {
	case token.INT:
		v, err := strconv.ParseInt(x.Value, 0, 64)
		if err != nil {
			return c.fail("integer literal", x)
		}
		if want == tByte {
			return fmt.Sprintf("(%d : UInt8)", v)
		}
		return fmt.Sprintf("(%d : Int)", v)
	case token.CHAR:
		r, _, _, err := strconv.UnquoteChar(x.Value[1:len(x.Value)-1], '\'')
		if err != nil {
			return c.fail("char literal", x)
		}
		if want == tInt {
			return fmt.Sprintf("(%d : Int)", r)
		}
		return fmt.Sprintf("(%d : UInt8)", r)
	case token.STRING:
		s, err := strconv.Unquote(x.Value)
		if err != nil {
			return c.fail("string literal", x)
		}
		return leanBytes(s)
	}
	return c.fail("literal", x)
}

// expr: pure, total Lean term for a Go expression (bounds are asserted separately by `defd`).
func (c *lpCtx) expr(e ast.Expr, want ltype) string {
	switch x := e.(type) {
	case *ast.ParenExpr:
		return "(" + c.expr(x.X, want) + ")"
	case *ast.BasicLit:
		return c.lit(x, want)
	case *ast.Ident:
		switch x.Name {
		case "true", "false":
			return x.Name
		}
		if n, ok := c.field(x); ok {
			return "v." + n
		}
		return c.fail("identifier "+x.Name, x)
	case *ast.SelectorExpr:
		if id, ok := x.X.(*ast.Ident); ok {
			q := id.Name + "." + x.Sel.Name
			if v, ok := c.consts[q]; ok {
				return v
			}
			if v, ok := c.cints[q]; ok {
				if want == tByte {
					return fmt.Sprintf("(%d : UInt8)", v)
				}
				return fmt.Sprintf("(%d : Int)", v)
			}
		}
		return c.fail("selector "+exprText(c.fset, x), x)
	case *ast.UnaryExpr:
		switch x.Op {
		case token.NOT:
			return "(!" + c.expr(x.X, tBool) + ")"
		case token.SUB:
			return "(-" + c.expr(x.X, tInt) + ")"
		}
	case *ast.BinaryExpr:
		t := c.typeOf(x.X)
		if t == tUnknown {
			t = c.typeOf(x.Y)
		}
		if t == tUnknown {
			t = tInt
		}
		switch x.Op {
		case token.LAND:
			return "(" + c.expr(x.X, tBool) + " && " + c.expr(x.Y, tBool) + ")"
		case token.LOR:
			return "(" + c.expr(x.X, tBool) + " || " + c.expr(x.Y, tBool) + ")"
		}
		l, r := c.expr(x.X, t), c.expr(x.Y, t)
		switch x.Op {
		case token.EQL:
			return "(" + l + " == " + r + ")"
		case token.NEQ:
			return "(" + l + " != " + r + ")"
		case token.LSS:
			return "(decide (" + l + " < " + r + "))"
		case token.LEQ:
			return "(decide (" + l + " ≤ " + r + "))"
		case token.GTR:
			return "(decide (" + l + " > " + r + "))"
		case token.GEQ:
			return "(decide (" + l + " ≥ " + r + "))"
		case token.ADD:
			return "(" + l + " + " + r + ")"
		case token.SUB:
			return "(" + l + " - " + r + ")"
		case token.MUL:
			if t == tInt {
				return "(" + l + " * " + r + ")"
			}
		}
	case *ast.IndexExpr:
		return "(goIndex " + c.expr(x.X, tBytes) + " " + c.expr(x.Index, tInt) + ")"
	case *ast.SliceExpr:
		base := c.expr(x.X, tBytes)
		switch {
		case x.Slice3:
		case x.Low == nil && x.High != nil:
			return "(goSliceTo " + base + " " + c.expr(x.High, tInt) + ")"
		case x.Low != nil && x.High == nil:
			return "(goSliceFrom " + base + " " + c.expr(x.Low, tInt) + ")"
		case x.Low != nil && x.High != nil:
			return "(goSlice " + base + " " + c.expr(x.Low, tInt) + " " + c.expr(x.High, tInt) + ")"
		default:
			return base
		}
	case *ast.CallExpr:
		if id, ok := x.Fun.(*ast.Ident); ok {
			switch id.Name {
			case "len":
				return "(goLen " + c.expr(x.Args[0], tBytes) + ")"
			case "int":
				// conversion to int: of a byte (zero-extended) or of an int (identity)
				if len(x.Args) == 1 {
					switch c.typeOf(x.Args[0]) {
					case tByte:
						return "(Int.ofNat " + c.expr(x.Args[0], tByte) + ".toNat)"
					case tInt:
						return c.expr(x.Args[0], tInt)
					}
				}
			case "append":
				if len(x.Args) == 2 && x.Ellipsis != token.NoPos {
					return "(" + c.expr(x.Args[0], tBytes) + " ++ " + c.expr(x.Args[1], tBytes) + ")"
				}
			default:
				if ce, ok := c.callees[id.Name]; ok && !ce.option && len(ce.rets) == 1 && len(ce.params) == len(x.Args) {
					r := "(" + ce.lean
					for i, a := range x.Args {
						r += " " + c.expr(a, ce.params[i])
					}
					return r + ")"
				}
			case "make":
				// make([]byte, 0, n): an empty slice (capacity is not observable here)
				if len(x.Args) == 3 {
					if l, ok := x.Args[1].(*ast.BasicLit); ok && l.Value == "0" {
						return "([] : List UInt8)"
					}
				}
			}
		}
		if se, ok := x.Fun.(*ast.SelectorExpr); ok {
			if id, ok := se.X.(*ast.Ident); ok {
				switch id.Name + "." + se.Sel.Name {
				case "bytes.HasSuffix":
					return "(goHasSuffix " + c.expr(x.Args[0], tBytes) + " " + c.expr(x.Args[1], tBytes) + ")"
				case "bytes.Equal":
					return "(" + c.expr(x.Args[0], tBytes) + " == " + c.expr(x.Args[1], tBytes) + ")"
				}
			}
		}
	}
	return c.fail("expression "+exprText(c.fset, e), e)
}

// defd: Lean Bool term saying that evaluating `e` does not panic ("" = always defined).
func (c *lpCtx) defd(e ast.Expr) string {
	and := func(parts ...string) string {
		var ps []string
		for _, p := range parts {
			if p != "" {
				ps = append(ps, p)
			}
		}
		if len(ps) == 0 {
			return ""
		}
		if len(ps) == 1 {
			return ps[0]
		}
		return "(" + strings.Join(ps, " && ") + ")"
	}
	switch x := e.(type) {
	case *ast.ParenExpr:
		return c.defd(x.X)
	case *ast.UnaryExpr:
		return c.defd(x.X)
	case *ast.BinaryExpr:
		dl, dr := c.defd(x.X), c.defd(x.Y)
		switch x.Op {
		case token.LAND:
			if dr == "" {
				return dl
			}
			return and(dl, "(!"+c.expr(x.X, tBool)+" || "+dr+")")
		case token.LOR:
			if dr == "" {
				return dl
			}
			return and(dl, "("+c.expr(x.X, tBool)+" || "+dr+")")
		}
		return and(dl, dr)
	case *ast.IndexExpr:
		l, i := c.expr(x.X, tBytes), c.expr(x.Index, tInt)
		return and(c.defd(x.X), c.defd(x.Index), "(goInRange "+l+" "+i+")")
	case *ast.SliceExpr:
		l := c.expr(x.X, tBytes)
		lo, hi := "(0 : Int)", "(goLen "+l+")"
		var ds []string
		ds = append(ds, c.defd(x.X))
		if x.Low != nil {
			lo = c.expr(x.Low, tInt)
			ds = append(ds, c.defd(x.Low))
		}
		if x.High != nil {
			hi = c.expr(x.High, tInt)
			ds = append(ds, c.defd(x.High))
		}
		ds = append(ds, "(goSliceOK "+l+" "+lo+" "+hi+")")
		return and(ds...)
	case *ast.CallExpr:
		var ds []string
		for _, a := range x.Args {
			ds = append(ds, c.defd(a))
		}
		return and(ds...)
	}
	return ""
}

func (c *lpCtx) guard(w *lw, es ...ast.Expr) {
	for _, e := range es {
		if e == nil {
			continue
		}
		if d := c.defd(e); d != "" {
			w.line("goGuard %s", d)
		}
	}
}

func (c *lpCtx) set(w *lw, name, rhs string) {
	if name == "_" {
		return
	}
	w.line("v := { v with %s := %s }", name, rhs)
}

func (c *lpCtx) stmts(w *lw, list []ast.Stmt) {
	for _, s := range list {
		c.stmt(w, s)
	}
}

func (c *lpCtx) assignTo(w *lw, lhs ast.Expr, rhs ast.Expr, define bool) {
	id, ok := lhs.(*ast.Ident)
	if !ok {
		w.line("%s", c.fail("assignment target "+exprText(c.fset, lhs), lhs))
		return
	}
	t := c.typeOf(rhs)
	var n string
	if define {
		n = c.declare(id, t)
	} else {
		var ok bool
		n, ok = c.field(id)
		if !ok {
			w.line("%s", c.fail("assignment to undeclared "+id.Name, lhs))
			return
		}
	}
	if n == "_" {
		return
	}
	want := c.types[n]
	if want == tUnknown {
		want = tInt
		c.types[n] = tInt
	}
	c.guard(w, rhs)
	c.set(w, n, c.expr(rhs, want))
}

func (c *lpCtx) stmt(w *lw, s ast.Stmt) {
	switch x := s.(type) {
	case *ast.AssignStmt:
		switch x.Tok {
		case token.DEFINE, token.ASSIGN:
			if len(x.Lhs) == len(x.Rhs) {
				for i := range x.Lhs {
					c.assignTo(w, x.Lhs[i], x.Rhs[i], x.Tok == token.DEFINE)
				}
				return
			}
			// a, b, c := f(...) for a function translated earlier (loop mode: Option-valued)
			if len(x.Rhs) == 1 {
				if call, ok := x.Rhs[0].(*ast.CallExpr); ok {
					if id, ok := call.Fun.(*ast.Ident); ok {
						if ce, ok := c.callees[id.Name]; ok && len(ce.rets) == len(x.Lhs) && len(ce.params) == len(call.Args) {
							for _, a := range call.Args {
								c.guard(w, a)
							}
							app := ce.lean
							for i, a := range call.Args {
								app += " " + c.expr(a, ce.params[i])
							}
							c.ntmp++
							tmp := fmt.Sprintf("r_%d", c.ntmp)
							if ce.option {
								w.line("let %s ← %s", tmp, app)
							} else {
								w.line("let %s := %s", tmp, app)
							}
							var sets []string
							for i, l := range x.Lhs {
								lid, ok := l.(*ast.Ident)
								if !ok {
									w.line("%s", c.fail("assignment target "+exprText(c.fset, l), l))
									return
								}
								var n string
								if x.Tok == token.DEFINE {
									n = c.declare(lid, ce.rets[i])
								} else {
									n, ok = c.field(lid)
									if !ok {
										w.line("%s", c.fail("assignment to undeclared "+lid.Name, l))
										return
									}
								}
								if n == "_" {
									continue
								}
								proj := tmp
								if len(ce.rets) > 1 {
									proj = tmp + "." + strings.Repeat("2.", i)
									if i < len(ce.rets)-1 {
										proj += "1"
									} else {
										proj = strings.TrimSuffix(proj, ".")
									}
								}
								sets = append(sets, fmt.Sprintf("%s := %s", n, proj))
							}
							if len(sets) > 0 {
								w.line("v := { v with %s }", strings.Join(sets, ", "))
							}
							return
						}
					}
				}
			}
			// r, s := utf8.DecodeLastRune(b)
			if len(x.Lhs) == 2 && len(x.Rhs) == 1 {
				if call, ok := x.Rhs[0].(*ast.CallExpr); ok {
					if se, ok := call.Fun.(*ast.SelectorExpr); ok {
						if id, ok := se.X.(*ast.Ident); ok && id.Name == "utf8" && se.Sel.Name == "DecodeLastRune" {
							a, aok := x.Lhs[0].(*ast.Ident)
							b, bok := x.Lhs[1].(*ast.Ident)
							if aok && bok {
								na, nb := c.declare(a, tInt), c.declare(b, tInt)
								arg := c.expr(call.Args[0], tBytes)
								c.set(w, na, "(goDecodeLastRune "+arg+").1")
								c.set(w, nb, "(goDecodeLastRune "+arg+").2")
								return
							}
						}
					}
				}
			}
		case token.ADD_ASSIGN, token.SUB_ASSIGN:
			id, ok := x.Lhs[0].(*ast.Ident)
			n, ok2 := "", false
			if ok {
				n, ok2 = c.field(id)
			}
			if ok && ok2 && len(x.Rhs) == 1 {
				op := "+"
				if x.Tok == token.SUB_ASSIGN {
					op = "-"
				}
				c.guard(w, x.Rhs[0])
				c.set(w, n, "(v."+n+" "+op+" "+c.expr(x.Rhs[0], tInt)+")")
				return
			}
		}
		w.line("%s", c.fail("assignment "+exprText(c.fset, x.Lhs[0]), x))
	case *ast.IncDecStmt:
		if id, ok := x.X.(*ast.Ident); ok {
			if n, ok := c.field(id); ok {
				op := "+"
				if x.Tok == token.DEC {
					op = "-"
				}
				c.set(w, n, "(v."+n+" "+op+" (1 : Int))")
				return
			}
		}
		w.line("%s", c.fail("inc/dec", x))
	case *ast.IfStmt:
		if x.Init != nil {
			c.stmt(w, x.Init)
		}
		c.guard(w, x.Cond)
		w.line("if %s then", c.expr(x.Cond, tBool))
		w.ind++
		if len(x.Body.List) == 0 {
			w.line("pure ()")
		}
		c.stmts(w, x.Body.List)
		w.ind--
		if x.Else != nil {
			w.line("else")
			w.ind++
			switch e := x.Else.(type) {
			case *ast.BlockStmt:
				if len(e.List) == 0 {
					w.line("pure ()")
				}
				c.stmts(w, e.List)
			default:
				c.stmt(w, e)
			}
			w.ind--
		}
	case *ast.ForStmt:
		if x.Init != nil {
			c.stmt(w, x.Init)
		}
		c.nloop++
		name := fmt.Sprintf("%s.loop%d", c.fn, c.nloop)
		lwr := &lw{ind: 2}
		lwr.line("let mut v := v_in")
		if x.Cond != nil {
			c.guard(lwr, x.Cond)
			lwr.line("if !%s then", c.expr(x.Cond, tBool))
			lwr.line("  return v")
		}
		c.inLoop++
		c.stmts(lwr, x.Body.List)
		c.inLoop--
		if x.Post != nil {
			c.stmt(lwr, x.Post)
		}
		lwr.line("%s fuel v", name)
		var sb strings.Builder
		fmt.Fprintf(&sb, "def %s : Nat → %s.Vars → Option %s.Vars\n  | 0, _ => none\n  | fuel + 1, v_in => do\n", name, c.fn, c.fn)
		sb.WriteString(lwr.sb.String())
		c.loops = append(c.loops, sb.String())
		w.line("v ← %s ((goLen v.%s).toNat + 1) v", name, c.fuelOn)
		if c.retFlag {
			w.line("if v.ret_ then")
			w.line("  return v")
		}
	case *ast.BranchStmt:
		if x.Tok == token.BREAK && x.Label == nil {
			w.line("return v")
			return
		}
		w.line("%s", c.fail("branch "+x.Tok.String(), x))
	case *ast.ReturnStmt:
		if len(x.Results) == 0 {
			if c.retFlag && c.inLoop > 0 {
				w.line("v := { v with ret_ := true }")
			}
			w.line("return v")
			return
		}
		if len(x.Results) == len(c.results) {
			// all operands are evaluated before any result is assigned
			var sets []string
			for i, r := range x.Results {
				c.guard(w, r)
				c.ntmp++
				tmp := fmt.Sprintf("r_%d", c.ntmp)
				w.line("let %s := %s", tmp, c.expr(r, c.types[c.results[i]]))
				sets = append(sets, fmt.Sprintf("%s := %s", c.results[i], tmp))
			}
			if c.retFlag && c.inLoop > 0 {
				sets = append(sets, "ret_ := true")
			}
			w.line("v := { v with %s }", strings.Join(sets, ", "))
			w.line("return v")
			return
		}
		w.line("%s", c.fail("return with values", x))
	case *ast.BlockStmt:
		c.stmts(w, x.List)
	default:
		w.line("%s", c.fail(fmt.Sprintf("statement %T", s), s))
	}
}

// translateLoopFunc renders a function with loops: a Vars structure, one definition per loop,
// and the function itself (`Option` of its single named result).
func translateLoopFunc(fset *token.FileSet, fd *ast.FuncDecl, leanDefName string, consts map[string]string, cints map[string]int64, callees map[string]lpCallee) (string, []string) {
	c := &lpCtx{fset: fset, fn: leanDefName, names: map[*ast.Object]string{}, types: map[string]ltype{}, used: map[string]int{},
		consts: consts, cints: cints, callees: callees}
	// does the function return from inside a loop?
	ast.Inspect(fd.Body, func(n ast.Node) bool {
		if f, ok := n.(*ast.ForStmt); ok {
			ast.Inspect(f.Body, func(m ast.Node) bool {
				if _, ok := m.(*ast.ReturnStmt); ok {
					c.retFlag = true
				}
				return true
			})
		}
		return true
	})
	var params, inits []string
	for _, f := range fd.Type.Params.List {
		t := goTypeOf(f.Type)
		for _, n := range f.Names {
			fn := c.declare(n, t)
			params = append(params, fmt.Sprintf("(%s : %s)", fn, leanType(t)))
			inits = append(inits, fmt.Sprintf("%s := %s", fn, fn))
			if t == tBytes && c.fuelOn == "" {
				c.fuelOn = fn
			}
		}
	}
	if fd.Type.Results == nil {
		return "", []string{"loop-mode function must have named results"}
	}
	var rts []string
	for _, f := range fd.Type.Results.List {
		if len(f.Names) == 0 {
			return "", []string{"loop-mode function must have named results"}
		}
		for _, n := range f.Names {
			t := goTypeOf(f.Type)
			c.results = append(c.results, c.declare(n, t))
			rts = append(rts, leanType(t))
		}
	}
	c.result = c.results[0]
	if c.retFlag {
		c.types["ret_"] = tBool
		c.order = append(c.order, "ret_")
	}
	w := &lw{ind: 1}
	w.line("let mut v : %s.Vars := { %s }", leanDefName, strings.Join(inits, ", "))
	// body of the function; `return` = return the state (the result field is read at the end)
	body := &lw{ind: 1}
	c.stmts(body, fd.Body.List)
	var sb strings.Builder
	fmt.Fprintf(&sb, "structure %s.Vars where\n", leanDefName)
	for _, n := range c.order {
		t := c.types[n]
		if t == tUnknown {
			t = tInt
		}
		z := "0"
		switch t {
		case tBool:
			z = "false"
		case tBytes:
			z = "[]"
		}
		fmt.Fprintf(&sb, "  %s : %s := %s\n", n, leanType(t), z)
	}
	sb.WriteString("\n")
	for _, l := range c.loops {
		sb.WriteString(l)
		sb.WriteString("\n")
	}
	fmt.Fprintf(&sb, "def %s.run %s : Option %s.Vars := do\n", leanDefName, strings.Join(params, " "), leanDefName)
	sb.WriteString(w.sb.String())
	sb.WriteString(body.sb.String())
	if !strings.HasSuffix(strings.TrimRight(body.sb.String(), "\n"), "return v") {
		sb.WriteString("  return v\n")
	}
	sb.WriteString("\n")
	proj := "(·." + c.result + ")"
	if len(c.results) > 1 {
		var fs []string
		for _, r := range c.results {
			fs = append(fs, "v."+r)
		}
		proj = "(fun v => (" + strings.Join(fs, ", ") + "))"
	}
	fmt.Fprintf(&sb, "def %s %s : Option (%s) :=\n  (%s.run %s).map %s\n", leanDefName, strings.Join(params, " "), strings.Join(rts, " × "), leanDefName,
		strings.Join(func() []string {
			var a []string
			for _, f := range fd.Type.Params.List {
				for _, n := range f.Names {
					a = append(a, c.names[n.Obj])
				}
			}
			return a
		}(), " "), proj)
	return sb.String(), c.bad
}
