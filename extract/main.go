// Command extract regenerates lean/RedactVerif/Generated/Facts.lean from
// /repo's current sources: values the current code computes (marker
// constants, regexp sources, mode numbering) and syntactic facts read off the
// AST of internal/rfmt and internal/buffer (verb tables of the leaf
// formatters, the functions that bracket their writes with startUnsafe, the
// shape of every start*() call, the fields reset by Reset/clearflags/free).
// Props/Facts.lean states what the model assumes about them.
package main

import (
	"encoding/json"
	"fmt"
	"go/ast"
	"go/parser"
	"go/printer"
	"go/token"
	"os"
	"path/filepath"
	"sort"
	"strconv"
	"strings"

	"github.com/cockroachdb/redact/internal/buffer"
	"github.com/cockroachdb/redact/internal/markers"
)

func bytesLit(b []byte) string {
	var parts []string
	for _, c := range b {
		parts = append(parts, fmt.Sprintf("0x%02X", c))
	}
	return "[" + strings.Join(parts, ", ") + "]"
}

func natList(l []int) string {
	var parts []string
	for _, c := range l {
		parts = append(parts, strconv.Itoa(c))
	}
	return "[" + strings.Join(parts, ", ") + "]"
}

func strList(l []string) string {
	var parts []string
	for _, c := range l {
		parts = append(parts, strconv.Quote(c))
	}
	return "[" + strings.Join(parts, ", ") + "]"
}

// caseRunes returns the rune literals of the case clauses of the first switch on
// `verb` in fn (default clause excluded).
func caseRunes(fn *ast.FuncDecl) []int {
	var out []int
	done := false
	ast.Inspect(fn.Body, func(n ast.Node) bool {
		if done {
			return false
		}
		sw, ok := n.(*ast.SwitchStmt)
		if !ok {
			return true
		}
		id, ok := sw.Tag.(*ast.Ident)
		if !ok || id.Name != "verb" {
			return true
		}
		for _, c := range sw.Body.List {
			cc := c.(*ast.CaseClause)
			for _, e := range cc.List {
				if bl, ok := e.(*ast.BasicLit); ok && bl.Kind == token.CHAR {
					r, _, _, err := strconv.UnquoteChar(bl.Value[1:len(bl.Value)-1], '\'')
					if err == nil {
						out = append(out, int(r))
					}
				}
			}
		}
		done = true
		return false
	})
	sort.Ints(out)
	return out
}

// isStartRestore reports whether call is p.start*().restore() and returns the start name.
func startOf(call *ast.CallExpr) (string, bool) {
	sel, ok := call.Fun.(*ast.SelectorExpr)
	if !ok || sel.Sel.Name != "restore" {
		return "", false
	}
	inner, ok := sel.X.(*ast.CallExpr)
	if !ok {
		return "", false
	}
	isel, ok := inner.Fun.(*ast.SelectorExpr)
	if !ok || !strings.HasPrefix(isel.Sel.Name, "start") {
		return "", false
	}
	return isel.Sel.Name, true
}

func assignedFields(fn *ast.FuncDecl, recv string) []string {
	set := map[string]bool{}
	ast.Inspect(fn.Body, func(n ast.Node) bool {
		as, ok := n.(*ast.AssignStmt)
		if !ok {
			return true
		}
		for _, l := range as.Lhs {
			if sel, ok := l.(*ast.SelectorExpr); ok {
				if id, ok := sel.X.(*ast.Ident); ok && id.Name == recv {
					set[sel.Sel.Name] = true
				}
			}
		}
		return true
	})
	var out []string
	for k := range set {
		out = append(out, k)
	}
	sort.Strings(out)
	return out
}

func structFields(f *ast.File, name string) []string {
	var out []string
	ast.Inspect(f, func(n ast.Node) bool {
		ts, ok := n.(*ast.TypeSpec)
		if !ok || ts.Name.Name != name {
			return true
		}
		if st, ok := ts.Type.(*ast.StructType); ok {
			for _, fl := range st.Fields.List {
				if len(fl.Names) == 0 {
					// embedded
					switch t := fl.Type.(type) {
					case *ast.Ident:
						out = append(out, t.Name)
					case *ast.SelectorExpr:
						out = append(out, t.Sel.Name)
					}
				}
				for _, nm := range fl.Names {
					out = append(out, nm.Name)
				}
			}
		}
		return false
	})
	return out
}

// exprText prints an expression as source text.
func exprText(fset *token.FileSet, e ast.Expr) string {
	var sb strings.Builder
	printer.Fprint(&sb, fset, e)
	return strings.Join(strings.Fields(sb.String()), " ")
}

// skeleton lists, in source order, the decisions of a function: if-conditions, type switches and
// their case types, value switches and their case lists, type assertions, and returns.
func skeleton(fset *token.FileSet, fn *ast.FuncDecl) []string { return skeletonR(fset, fn, false) }

// skeletonR with rich=true also lists call statements and assignments (the whole effect of small functions).
func skeletonR(fset *token.FileSet, fn *ast.FuncDecl, rich bool) []string {
	var out []string
	var walk func(n ast.Node) bool
	walk = func(n ast.Node) bool {
		switch x := n.(type) {
		case *ast.IfStmt:
			if x.Init != nil {
				ast.Inspect(x.Init, walk)
			}
			out = append(out, "if "+exprText(fset, x.Cond))
			ast.Inspect(x.Body, walk)
			if x.Else != nil {
				out = append(out, "else")
				ast.Inspect(x.Else, walk)
			}
			out = append(out, "fi")
			return false
		case *ast.TypeSwitchStmt:
			out = append(out, "typeswitch")
			for _, c := range x.Body.List {
				cc := c.(*ast.CaseClause)
				var ts []string
				for _, t := range cc.List {
					ts = append(ts, exprText(fset, t))
				}
				if cc.List == nil {
					ts = []string{"default"}
				}
				out = append(out, "case "+strings.Join(ts, ","))
				for _, st := range cc.Body {
					ast.Inspect(st, walk)
				}
			}
			out = append(out, "end")
			return false
		case *ast.SwitchStmt:
			tag := ""
			if x.Tag != nil {
				tag = exprText(fset, x.Tag)
			}
			out = append(out, "switch "+tag)
			for _, c := range x.Body.List {
				cc := c.(*ast.CaseClause)
				var ts []string
				for _, t := range cc.List {
					ts = append(ts, exprText(fset, t))
				}
				if cc.List == nil {
					ts = []string{"default"}
				}
				out = append(out, "case "+strings.Join(ts, ","))
				for _, st := range cc.Body {
					ast.Inspect(st, walk)
				}
			}
			out = append(out, "end")
			return false
		case *ast.TypeAssertExpr:
			if x.Type != nil {
				out = append(out, "assert "+exprText(fset, x.Type))
			}
			return true
		case *ast.ReturnStmt:
			var rs []string
			for _, r := range x.Results {
				rs = append(rs, exprText(fset, r))
			}
			out = append(out, strings.TrimSpace("return "+strings.Join(rs, ",")))
			return false
		case *ast.DeferStmt:
			out = append(out, "defer "+exprText(fset, x.Call.Fun))
			return false
		case *ast.ExprStmt:
			if rich {
				out = append(out, "do "+exprText(fset, x.X))
				return false
			}
		case *ast.AssignStmt:
			if rich {
				var ls, rs []string
				for _, l := range x.Lhs {
					ls = append(ls, exprText(fset, l))
				}
				for _, r := range x.Rhs {
					rs = append(rs, exprText(fset, r))
				}
				out = append(out, "set "+strings.Join(ls, ",")+" "+x.Tok.String()+" "+strings.Join(rs, ","))
				return false
			}
		case *ast.BranchStmt:
			if rich {
				out = append(out, x.Tok.String())
				return false
			}
		case *ast.IncDecStmt:
			if rich {
				out = append(out, "set "+exprText(fset, x.X)+x.Tok.String())
				return false
			}
		case *ast.ForStmt:
			if rich {
				cond := ""
				if x.Cond != nil {
					cond = exprText(fset, x.Cond)
				}
				if x.Init != nil {
					ast.Inspect(x.Init, walk)
				}
				out = append(out, "for "+cond)
				ast.Inspect(x.Body, walk)
				if x.Post != nil {
					ast.Inspect(x.Post, walk)
				}
				out = append(out, "rof")
				return false
			}
		case *ast.FuncLit:
			return false
		}
		return true
	}
	ast.Inspect(fn.Body, walk)
	return out
}

// mentions lists the functions whose body selects a field of the given name.
func mentions(funcs map[string]*ast.FuncDecl, field string) []string {
	var out []string
	for k, fd := range funcs {
		found := false
		ast.Inspect(fd.Body, func(n ast.Node) bool {
			if sel, ok := n.(*ast.SelectorExpr); ok && sel.Sel.Name == field {
				found = true
			}
			return !found
		})
		if found {
			out = append(out, k)
		}
	}
	sort.Strings(out)
	return out
}

// callList lists, in source order, every call expression of a function as source text
// (for the straight-line methods of the builder and the printer adapter).
func callList(fset *token.FileSet, fn *ast.FuncDecl) []string {
	var out []string
	ast.Inspect(fn.Body, func(n ast.Node) bool {
		switch x := n.(type) {
		case *ast.DeferStmt:
			out = append(out, "defer "+exprText(fset, x.Call))
			return false
		case *ast.ExprStmt:
			if c, ok := x.X.(*ast.CallExpr); ok {
				out = append(out, exprText(fset, c))
				return false
			}
		case *ast.AssignStmt:
			for _, r := range x.Rhs {
				if c, ok := r.(*ast.CallExpr); ok {
					out = append(out, "= "+exprText(fset, c))
				}
			}
			return false
		case *ast.ReturnStmt:
			var rs []string
			for _, r := range x.Results {
				rs = append(rs, exprText(fset, r))
			}
			out = append(out, strings.TrimSpace("return "+strings.Join(rs, ",")))
			return false
		case *ast.IfStmt:
			out = append(out, "if "+exprText(fset, x.Cond))
		case *ast.FuncLit:
			return false
		}
		return true
	})
	return out
}

// pairList renders [(name, [lines])] as a Lean list of pairs.
func pairList(names []string, f func(string) []string) string {
	var sb strings.Builder
	sb.WriteString("[")
	for i, n := range names {
		if i > 0 {
			sb.WriteString(",\n  ")
		}
		sb.WriteString("(" + strconv.Quote(n) + ", " + strList(f(n)) + ")")
	}
	sb.WriteString("]")
	return sb.String()
}

func main() {
	if len(os.Args) < 3 {
		fmt.Fprintln(os.Stderr, "usage: extract <repo> <outdir>")
		os.Exit(2)
	}
	repo, outdir := os.Args[1], os.Args[2]
	fset := token.NewFileSet()
	parse := func(rel string) *ast.File {
		f, err := parser.ParseFile(fset, filepath.Join(repo, rel), nil, 0)
		if err != nil {
			fmt.Fprintln(os.Stderr, err)
			os.Exit(1)
		}
		return f
	}
	printGo := parse("internal/rfmt/print.go")
	formatGo := parse("internal/rfmt/format.go")
	helpersGo := parse("internal/rfmt/helpers.go")
	adapterGo := parse("internal/rfmt/printer_adapter.go")
	bufferGo := parse("internal/buffer/buffer.go")

	funcs := map[string]*ast.FuncDecl{}
	for _, f := range []*ast.File{printGo, formatGo, helpersGo, adapterGo, bufferGo} {
		for _, d := range f.Decls {
			if fd, ok := d.(*ast.FuncDecl); ok && fd.Body != nil {
				key := fd.Name.Name
				if fd.Recv != nil && len(fd.Recv.List) == 1 {
					switch t := fd.Recv.List[0].Type.(type) {
					case *ast.StarExpr:
						if id, ok := t.X.(*ast.Ident); ok {
							key = id.Name + "." + key
						}
					case *ast.Ident:
						key = t.Name + "." + key
					}
				}
				funcs[key] = fd
			}
		}
	}
	verbs := func(key string) []int {
		if fd, ok := funcs[key]; ok {
			return caseRunes(fd)
		}
		return nil
	}

	// every start*() call: deferred restore or not
	var unsafeSites, safeOvSites, unsafeOvSites, preSites, notDeferred []string
	for _, f := range []*ast.File{printGo, helpersGo, adapterGo} {
		for _, d := range f.Decls {
			fd, ok := d.(*ast.FuncDecl)
			if !ok || fd.Body == nil {
				continue
			}
			deferred := map[*ast.CallExpr]bool{}
			ast.Inspect(fd.Body, func(n ast.Node) bool {
				if ds, ok := n.(*ast.DeferStmt); ok {
					if name, ok := startOf(ds.Call); ok {
						deferred[ds.Call] = true
						switch name {
						case "startUnsafe":
							unsafeSites = append(unsafeSites, fd.Name.Name)
						case "startSafeOverride":
							safeOvSites = append(safeOvSites, fd.Name.Name)
						case "startUnsafeOverride":
							unsafeOvSites = append(unsafeOvSites, fd.Name.Name)
						case "startPreRedactable":
							preSites = append(preSites, fd.Name.Name)
						}
					}
				}
				return true
			})
			ast.Inspect(fd.Body, func(n ast.Node) bool {
				call, ok := n.(*ast.CallExpr)
				if !ok {
					return true
				}
				if sel, ok := call.Fun.(*ast.SelectorExpr); ok && strings.HasPrefix(sel.Sel.Name, "start") &&
					(sel.Sel.Name == "startUnsafe" || sel.Sel.Name == "startSafeOverride" || sel.Sel.Name == "startUnsafeOverride" || sel.Sel.Name == "startPreRedactable" || sel.Sel.Name == "startRedactable") {
					// is it the inner call of a deferred ...restore()?
					found := false
					for dc := range deferred {
						if s2, ok := dc.Fun.(*ast.SelectorExpr); ok && s2.X == ast.Expr(call) {
							found = true
						}
					}
					if !found && !strings.HasPrefix(fd.Name.Name, "start") {
						notDeferred = append(notDeferred, fd.Name.Name+":"+sel.Sel.Name)
					}
				}
				return true
			})
		}
	}
	dedup := func(l []string) []string {
		sort.Strings(l)
		var out []string
		for i, s := range l {
			if i == 0 || l[i-1] != s {
				out = append(out, s)
			}
		}
		return out
	}
	count := func(l []string) int { return len(l) }

	// the verbs under which handleMethods starts the safe override for a SafeMessager
	var smVerbs []int
	if fd, ok := funcs["pp.handleMethods"]; ok {
		ast.Inspect(fd.Body, func(n ast.Node) bool {
			cc, ok := n.(*ast.CaseClause)
			if !ok {
				return true
			}
			isSM := false
			for _, e := range cc.List {
				if sel, ok := e.(*ast.SelectorExpr); ok && sel.Sel.Name == "SafeMessager" {
					isSM = true
				}
			}
			if !isSM {
				return true
			}
			for _, st := range cc.Body {
				if sw, ok := st.(*ast.SwitchStmt); ok {
					for _, c := range sw.Body.List {
						c2 := c.(*ast.CaseClause)
						hasOv := false
						for _, s := range c2.Body {
							if ds, ok := s.(*ast.DeferStmt); ok {
								if nm, ok := startOf(ds.Call); ok && nm == "startSafeOverride" {
									hasOv = true
								}
							}
						}
						if hasOv {
							for _, e := range c2.List {
								if bl, ok := e.(*ast.BasicLit); ok && bl.Kind == token.CHAR {
									r, _, _, _ := strconv.UnquoteChar(bl.Value[1:len(bl.Value)-1], '\'')
									smVerbs = append(smVerbs, int(r))
								}
							}
						}
					}
				}
				if ds, ok := st.(*ast.DeferStmt); ok {
					if nm, ok := startOf(ds.Call); ok && nm == "startSafeOverride" {
						smVerbs = append(smVerbs, -1) // unconditional override (the D10 defect)
					}
				}
			}
			return false
		})
	}
	sort.Ints(smVerbs)
	var smNat []int
	uncond := false
	for _, v := range smVerbs {
		if v < 0 {
			uncond = true
		} else {
			smNat = append(smNat, v)
		}
	}

	var sb strings.Builder
	w := func(format string, a ...interface{}) { fmt.Fprintf(&sb, format, a...) }
	w("/- GENERATED by /verif/extract from /repo's current sources on every run of ./check. DO NOT EDIT. -/\n")
	w("namespace Redact.Gen\n\n")
	w("-- values computed by the current code (internal/markers, internal/buffer)\n")
	w("def startB : List UInt8 := %s\n", bytesLit([]byte(markers.StartS)))
	w("def endB : List UInt8 := %s\n", bytesLit([]byte(markers.EndS)))
	w("def escB : List UInt8 := %s\n", bytesLit([]byte(markers.EscapeMarkS)))
	w("def redactedB : List UInt8 := %s\n", bytesLit([]byte(markers.RedactedS)))
	w("def reStripSensitive : List UInt8 := %s\n", bytesLit([]byte(markers.ReStripSensitive.String())))
	w("def reStripMarkers : List UInt8 := %s\n", bytesLit([]byte(markers.ReStripMarkers.String())))
	w("def modeUnsafeEscaped : Nat := %d\n", int(buffer.UnsafeEscaped))
	w("def modeSafeEscaped : Nat := %d\n", int(buffer.SafeEscaped))
	w("def modeSafeRaw : Nat := %d\n", int(buffer.SafeRaw))
	w("def modePreRedactable : Nat := %d\n", int(buffer.PreRedactable))
	w("\n-- case labels of the verb switches of the leaf formatters (internal/rfmt/print.go)\n")
	w("def verbsBool : List Nat := %s\n", natList(verbs("pp.fmtBool")))
	w("def verbsInteger : List Nat := %s\n", natList(verbs("pp.fmtInteger")))
	w("def verbsFloat : List Nat := %s\n", natList(verbs("pp.fmtFloat")))
	w("def verbsString : List Nat := %s\n", natList(verbs("pp.fmtString")))
	w("def verbsBytes : List Nat := %s\n", natList(verbs("pp.fmtBytes")))
	w("def verbsPointer : List Nat := %s\n", natList(verbs("pp.fmtPointer")))
	w("def verbsSafeMessagerOverride : List Nat := %s\n", natList(smNat))
	w("def safeMessagerOverrideUnconditional : Bool := %v\n", uncond)
	w("\n-- functions containing `defer p.start*().restore()`, with multiplicity removed\n")
	w("def unsafeSites : List String := %s\n", strList(dedup(unsafeSites)))
	w("def unsafeSiteCount : Nat := %d\n", count(unsafeSites))
	w("def safeOverrideSites : List String := %s\n", strList(dedup(safeOvSites)))
	w("def unsafeOverrideSites : List String := %s\n", strList(dedup(unsafeOvSites)))
	w("def preRedactableSites : List String := %s\n", strList(dedup(preSites)))
	w("-- start*() calls that are not the operand of a deferred restore()\n")
	w("def startCallsNotDeferred : List String := %s\n", strList(dedup(notDeferred)))
	w("\n-- struct fields and what the resetting functions assign\n")
	w("def bufferFields : List String := %s\n", strList(structFields(bufferGo, "Buffer")))
	w("def bufferResetAssigns : List String := %s\n", strList(assignedFields(funcs["Buffer.Reset"], "b")))
	w("def ppFields : List String := %s\n", strList(structFields(printGo, "pp")))
	w("def freeAssigns : List String := %s\n", strList(assignedFields(funcs["pp.free"], "p")))
	w("def fmtFields : List String := %s\n", strList(structFields(formatGo, "fmt")))
	w("def clearflagsAssigns : List String := %s\n", strList(assignedFields(funcs["fmt.clearflags"], "f")))
	w("\n-- G4: the decisions of handleMethods and of printArg, in source order\n")
	w("def handleMethodsSkeleton : List String := %s\n", strList(skeleton(fset, funcs["pp.handleMethods"])))
	w("def printArgSkeleton : List String := %s\n", strList(skeleton(fset, funcs["pp.printArg"])))
	w("def catchPanicSkeleton : List String := %s\n", strList(skeleton(fset, funcs["pp.catchPanic"])))
	w("\n-- which functions of rfmt select the fields that a recycled printer may carry over\n")
	rf := map[string]*ast.FuncDecl{}
	for k, fd := range funcs {
		if !strings.HasPrefix(k, "Buffer.") {
			rf[k] = fd
		}
	}
	w("def reorderedUsers : List String := %s\n", strList(mentions(rf, "reordered")))
	w("def goodArgNumUsers : List String := %s\n", strList(mentions(rf, "goodArgNum")))
	w("def argNumberCallers : List String := %s\n", strList(mentions(rf, "argNumber")))
	w("\n-- decision lists of the printer functions the model mirrors (print.go, helpers.go)\n")
	printerFns := []string{"pp.doPrint", "pp.doPrintf", "pp.printValue", "pp.badVerb", "pp.fmtBool", "pp.fmt0x64", "pp.fmtInteger",
		"pp.fmtFloat", "pp.fmtComplex", "pp.fmtString", "pp.fmtBytes", "pp.fmtPointer", "pp.argNumber", "pp.free", "newPrinter",
		"pp.handleSpecialValues", "pp.startUnsafe", "pp.startPreRedactable", "pp.startSafeOverride", "pp.startUnsafeOverride",
		"restorer.restore", "HelperForErrorf"}
	sk := func(n string) []string {
		if fd, ok := funcs[n]; ok {
			if strings.HasPrefix(n, "pp.start") || n == "restorer.restore" || n == "pp.free" || n == "newPrinter" || n == "HelperForErrorf" || n == "pp.doPrint" {
				return skeletonR(fset, fd, true)
			}
			return skeleton(fset, fd)
		}
		return []string{"<missing>"}
	}
	w("def skelPrinter : List (String × List String) := %s\n", pairList(printerFns, sk))
	w("\n-- decision lists of the buffer and of the escaping scanner\n")
	escapeGo := parse("internal/escape/escape.go")
	builderGo := parse("builder/builder.go")
	utilGo := parse("util.go")
	extra := map[string]*ast.FuncDecl{}
	for _, f := range []*ast.File{escapeGo, builderGo, utilGo} {
		for _, d := range f.Decls {
			if fd, ok := d.(*ast.FuncDecl); ok && fd.Body != nil {
				key := fd.Name.Name
				if fd.Recv != nil && len(fd.Recv.List) == 1 {
					switch t := fd.Recv.List[0].Type.(type) {
					case *ast.StarExpr:
						if id, ok := t.X.(*ast.Ident); ok {
							key = id.Name + "." + key
						}
					case *ast.Ident:
						key = t.Name + "." + key
					}
				}
				extra[key] = fd
			}
		}
	}
	var bufFns []string
	for k := range funcs {
		if strings.HasPrefix(k, "Buffer.") {
			bufFns = append(bufFns, k)
		}
	}
	sort.Strings(bufFns)
	skb := func(n string) []string {
		if fd, ok := funcs[n]; ok {
			return skeletonR(fset, fd, true)
		}
		if fd, ok := extra[n]; ok {
			return skeletonR(fset, fd, true)
		}
		return []string{"<missing>"}
	}
	w("def skelBuffer : List (String × List String) := %s\n", pairList(append(bufFns, "InternalEscapeBytes"), skb))
	w("\n-- the calls, in order, of the straight-line methods of the StringBuilder and of the printer's SafeWriter adapter\n")
	var callFns []string
	for k := range extra {
		if strings.HasPrefix(k, "StringBuilder.") {
			callFns = append(callFns, k)
		}
	}
	for _, d := range adapterGo.Decls {
		if fd, ok := d.(*ast.FuncDecl); ok && fd.Body != nil && fd.Recv != nil {
			callFns = append(callFns, "pp."+fd.Name.Name)
		}
	}
	callFns = append(callFns, "Join", "JoinTo")
	sort.Strings(callFns)
	cl := func(n string) []string {
		if fd, ok := extra[n]; ok {
			return callList(fset, fd)
		}
		if fd, ok := funcs[n]; ok {
			return callList(fset, fd)
		}
		return []string{"<missing>"}
	}
	w("def callsWriters : List (String × List String) := %s\n", pairList(callFns, cl))
	w("\nend Redact.Gen\n")

	if err := os.MkdirAll(outdir, 0o755); err != nil {
		fmt.Fprintln(os.Stderr, err)
		os.Exit(1)
	}
	out := filepath.Join(outdir, "Facts.lean")
	old, _ := os.ReadFile(out)
	if string(old) != sb.String() {
		if err := os.WriteFile(out, []byte(sb.String()), 0o644); err != nil {
			fmt.Fprintln(os.Stderr, err)
			os.Exit(1)
		}
	}
	transBad := writeTranslations(repo, outdir, fset, parse)
	js, _ := json.Marshal(map[string]interface{}{"translated": "Trans.lean", "untranslatable": transBad, "file": out, "unsafe_sites": count(unsafeSites), "changed": string(old) != sb.String()})
	fmt.Println(string(js))
}


// writeTranslations re-translates the functions listed here from /repo's current sources.
func writeTranslations(repo, outdir string, fset *token.FileSet, parse func(string) *ast.File) []string {
	var sb strings.Builder
	sb.WriteString("-- GENERATED by /verif/extract (translate.go) from /repo's working tree: do not edit.\n")
	sb.WriteString("import RedactVerif.Model.GoPrelude\n")
	sb.WriteString("namespace Redact.Trans\nopen Redact\n\n")
	var allBad []string
	find := func(f *ast.File, recv, name string) *ast.FuncDecl {
		for _, d := range f.Decls {
			fd, ok := d.(*ast.FuncDecl)
			if !ok || fd.Body == nil || fd.Name.Name != name {
				continue
			}
			r := ""
			if fd.Recv != nil && len(fd.Recv.List) == 1 {
				switch t := fd.Recv.List[0].Type.(type) {
				case *ast.StarExpr:
					if id, ok := t.X.(*ast.Ident); ok {
						r = id.Name
					}
				case *ast.Ident:
					r = t.Name
				}
			}
			if r == recv {
				return fd
			}
		}
		return nil
	}
	var methods map[string]methodSig
	var cints map[string]int64
	emit := func(file, recv, name, leanName string, consts map[string]string, ctypes map[string]ltype) {
		f := parse(file)
		fd := find(f, recv, name)
		if fd == nil {
			allBad = append(allBad, "missing function "+recv+"."+name+" in "+file)
			fmt.Fprintf(&sb, "-- %s.%s: not found in %s\ndef %s : Unit := untranslatable \"missing\"\n\n", recv, name, file, leanName)
			return
		}
		txt, bad := translateFunc(fset, fd, leanName, consts, cints, ctypes, methods)
		fmt.Fprintf(&sb, "/-- translated from %s: func %s -/\n%s\n", file, name, txt)
		allBad = append(allBad, bad...)
	}
	emit("internal/fmtforward/make_format.go", "", "MakeFormat", "MakeFormat", nil, nil)

	// internal/buffer/buffer.go: every method except the capacity management (grow,
	// tryGrowByReslice, Grow, Cap, clone, makeSlice) and the unsafe.Pointer variant of Take
	bufFile := parse("internal/buffer/buffer.go")
	methods = map[string]methodSig{}
	for _, d := range bufFile.Decls {
		fd, ok := d.(*ast.FuncDecl)
		if !ok || fd.Recv == nil || len(fd.Recv.List) != 1 {
			continue
		}
		sig := methodSig{}
		_, sig.ptr = fd.Recv.List[0].Type.(*ast.StarExpr)
		for _, f := range fd.Type.Params.List {
			for range f.Names {
				sig.params = append(sig.params, goTypeOf(f.Type))
			}
		}
		if fd.Type.Results != nil {
			for _, f := range fd.Type.Results.List {
				k := len(f.Names)
				if k == 0 {
					k = 1
				}
				for i := 0; i < k; i++ {
					sig.rets = append(sig.rets, goTypeOf(f.Type))
				}
			}
		}
		sig.nret = len(sig.rets)
		methods[fd.Name.Name] = sig
	}
	cints = map[string]int64{
		"UnsafeEscaped": int64(buffer.UnsafeEscaped), "SafeEscaped": int64(buffer.SafeEscaped), "SafeRaw": int64(buffer.SafeRaw),
		"PreRedactable": int64(buffer.PreRedactable),
		"m.StartLen": int64(markers.StartLen), "m.EndLen": int64(markers.EndLen),
		"utf8.RuneSelf": 0x80, "utf8.RuneError": 0xFFFD,
	}
	bconsts := map[string]string{
		"m.StartBytes": leanBytes(string(markers.StartBytes)), "m.StartS": leanBytes(markers.StartS),
		"m.EndBytes": leanBytes(string(markers.EndBytes)), "m.EndS": leanBytes(markers.EndS),
		"m.EscapeMarkS": leanBytes(markers.EscapeMarkS), "m.EscapeMarkBytes": leanBytes(string(markers.EscapeMarkBytes)),
	}
	bctypes := map[string]ltype{"m.StartBytes": tBytes, "m.StartS": tBytes, "m.EndBytes": tBytes, "m.EndS": tBytes,
		"m.EscapeMarkS": tBytes, "m.EscapeMarkBytes": tBytes}
	// callees first
	for _, n := range []string{"escapeToEnd", "endRedactable", "startRedactable", "startWrite", "finalize", "SetMode", "GetMode", "Reset",
		"Write", "WriteString", "WriteByte", "WriteRune", "RedactableBytes", "RedactableString", "String", "TakeRedactableBytes", "Len"} {
		emit("internal/buffer/buffer.go", "Buffer", n, n, bconsts, bctypes)
	}
	// builder/builder.go: the StringBuilder's SafeWriter methods that do not go through the printer
	// (Print, Printf, SafeInt, SafeUint, SafeFloat call rfmt.Fprint/Fprintf: not translated)
	{
		sbFile := parse("builder/builder.go")
		sbConsts := map[string]int64{}
		for k, v := range cints {
			sbConsts[k] = v
		}
		sbConsts["ib.UnsafeEscaped"], sbConsts["ib.SafeEscaped"], sbConsts["ib.PreRedactable"], sbConsts["ib.SafeRaw"] =
			int64(buffer.UnsafeEscaped), int64(buffer.SafeEscaped), int64(buffer.PreRedactable), int64(buffer.SafeRaw)
		saved := cints
		cints = sbConsts
		for _, n := range []string{"Write", "WriteString", "WriteByte", "WriteRune", "SafeString", "SafeRune", "SafeByte", "SafeBytes",
			"UnsafeString", "UnsafeRune", "UnsafeByte", "UnsafeBytes"} {
			fd := find(sbFile, "StringBuilder", n)
			if fd == nil {
				allBad = append(allBad, "missing StringBuilder."+n)
				continue
			}
			txt, bad := translateFunc(fset, fd, "SB_"+n, bconsts, cints, bctypes, methods)
			fmt.Fprintf(&sb, "/-- translated from builder/builder.go: func (*StringBuilder) %s -/\n%s\n", n, txt)
			allBad = append(allBad, bad...)
		}
		cints = saved
	}
	// internal/escape/escape.go: the scanner, with its loops and index arithmetic (loop mode)
	{
		f := parse("internal/escape/escape.go")
		fd := find(f, "", "InternalEscapeBytes")
		if fd == nil {
			allBad = append(allBad, "missing function InternalEscapeBytes")
		} else {
			txt, bad := translateLoopFunc(fset, fd, "InternalEscapeBytes", bconsts, cints, nil)
			fmt.Fprintf(&sb, "/-! translated from internal/escape/escape.go: func InternalEscapeBytes (loop mode) -/\n%s\n", txt)
			allBad = append(allBad, bad...)
		}
	}
	// internal/markers/markers.go: the projections and conversions (the two regexps are library calls:
	// goReplaceMarkers / goReplaceEnvelopes in Model/GoPrelude.lean)
	{
		saved := methods
		methods = nil
		mconsts := map[string]string{
			"RedactedS": leanBytes(markers.RedactedS), "RedactedBytes": leanBytes(string(markers.RedactedBytes)),
			"EscapeMarkBytes": leanBytes(string(markers.EscapeMarkBytes)), "EscapeMarkS": leanBytes(markers.EscapeMarkS),
			"StartS": leanBytes(markers.StartS), "EndS": leanBytes(markers.EndS),
		}
		mtypes := map[string]ltype{"RedactedS": tBytes, "RedactedBytes": tBytes, "EscapeMarkBytes": tBytes, "EscapeMarkS": tBytes, "StartS": tBytes, "EndS": tBytes}
		for _, rn := range [][2]string{{"RedactableString", "StripMarkers"}, {"RedactableString", "Redact"}, {"RedactableString", "ToBytes"},
			{"RedactableBytes", "StripMarkers"}, {"RedactableBytes", "Redact"}, {"RedactableBytes", "ToString"},
			{"", "StartMarker"}, {"", "EndMarker"}, {"", "RedactedMarker"}, {"", "EscapeMarkers"}} {
			ln := "M_" + rn[1]
			if rn[0] == "RedactableString" {
				ln = "MS_" + rn[1]
			} else if rn[0] == "RedactableBytes" {
				ln = "MB_" + rn[1]
			}
			emit("internal/markers/markers.go", rn[0], rn[1], ln, mconsts, mtypes)
		}
		methods = saved
	}
	// internal/rfmt/helpers.go: EscapeBytes
	{
		saved := methods
		methods = nil
		emit("internal/rfmt/helpers.go", "", "EscapeBytes", "EscapeBytes", bconsts, bctypes)
		methods = saved
	}
	// internal/rfmt/helpers.go, printer_adapter.go: the mode/override brackets and the SafeWriter methods of the printer
	{
		hf := parse("internal/rfmt/helpers.go")
		pcints := map[string]int64{"b.UnsafeEscaped": int64(buffer.UnsafeEscaped), "b.SafeEscaped": int64(buffer.SafeEscaped),
			"b.SafeRaw": int64(buffer.SafeRaw), "b.PreRedactable": int64(buffer.PreRedactable)}
		// the override constants are unexported: read their iota order off the const block
		for _, d := range hf.Decls {
			if gd, ok := d.(*ast.GenDecl); ok && gd.Tok == token.CONST {
				for i, sp := range gd.Specs {
					vs := sp.(*ast.ValueSpec)
					if len(vs.Names) == 1 && (i == 0) == (len(vs.Values) == 1) {
						if i == 0 {
							if id, ok := vs.Values[0].(*ast.Ident); !ok || id.Name != "iota" {
								break
							}
							if tid, ok := vs.Type.(*ast.Ident); !ok || tid.Name != "overrideMode" {
								break
							}
						}
						pcints[vs.Names[0].Name] = int64(i)
					}
				}
			}
		}
		for _, n := range []string{"noOverride", "overrideSafe", "overrideUnsafe"} {
			if _, ok := pcints[n]; !ok {
				allBad = append(allBad, "override constant "+n+" not found in helpers.go")
			}
		}
		for _, n := range []string{"startUnsafe", "startPreRedactable", "startSafeOverride", "startUnsafeOverride"} {
			fd := find(hf, "pp", n)
			if fd == nil {
				allBad = append(allBad, "missing pp."+n)
				continue
			}
			txt, bad := translatePPStart(fset, fd, pcints)
			fmt.Fprintf(&sb, "/-- translated from internal/rfmt/helpers.go: func (p *pp) %s -/\n%s\n", n, txt)
			allBad = append(allBad, bad...)
		}
		if fd := find(hf, "restorer", "restore"); fd == nil {
			allBad = append(allBad, "missing restorer.restore")
		} else {
			txt, bad := translatePPRestore(fset, fd, pcints)
			fmt.Fprintf(&sb, "/-- translated from internal/rfmt/helpers.go: func (r restorer) restore -/\n%s\n", txt)
			allBad = append(allBad, bad...)
		}
		af := parse("internal/rfmt/printer_adapter.go")
		for _, n := range []string{"SafeString", "SafeRune", "SafeByte", "SafeBytes", "UnsafeString", "UnsafeByte", "UnsafeBytes", "UnsafeRune"} {
			fd := find(af, "pp", n)
			if fd == nil {
				allBad = append(allBad, "missing pp."+n)
				continue
			}
			txt, bad := translatePPMethod(fset, fd, pcints)
			fmt.Fprintf(&sb, "/-- translated from internal/rfmt/printer_adapter.go: func (p *pp) %s -/\n%s\n", n, txt)
			allBad = append(allBad, bad...)
		}
	}
	// api.go: the public wrappers around the functions above
	{
		saved := methods
		methods = nil
		trQCalls = map[string]lpCallee{
			"m.StartMarker":    {lean: "M_StartMarker", rets: []ltype{tBytes}},
			"m.EndMarker":      {lean: "M_EndMarker", rets: []ltype{tBytes}},
			"m.RedactedMarker": {lean: "M_RedactedMarker", rets: []ltype{tBytes}},
			"m.EscapeMarkers":  {lean: "M_EscapeMarkers", params: []ltype{tBytes}, rets: []ltype{tBytes}},
			"ifmt.EscapeBytes": {lean: "EscapeBytes", params: []ltype{tBytes}, rets: []ltype{tBytes}},
			"fw.MakeFormat":    {lean: "MakeFormat", params: []ltype{tFmtState, tInt}, rets: []ltype{tBool, tBytes}},
		}
		for _, n := range []string{"StartMarker", "EndMarker", "RedactedMarker", "EscapeMarkers", "EscapeBytes", "MakeFormat"} {
			emit("api.go", "", n, "API_"+n, nil, nil)
		}
		trQCalls = map[string]lpCallee{}
		methods = saved
	}
	// internal/rfmt/print.go: the number parsers of doPrintf's directive parser
	{
		f := parse("internal/rfmt/print.go")
		methods = nil
		emit("internal/rfmt/print.go", "", "tooLarge", "tooLarge", nil, nil)
		callees := map[string]lpCallee{
			"tooLarge": {lean: "tooLarge", params: []ltype{tInt}, rets: []ltype{tBool}},
		}
		for _, n := range []string{"parsenum", "parseArgNumber"} {
			fd := find(f, "", n)
			if fd == nil {
				allBad = append(allBad, "missing function "+n)
				continue
			}
			txt, bad := translateLoopFunc(fset, fd, n, nil, map[string]int64{}, callees)
			fmt.Fprintf(&sb, "/-! translated from internal/rfmt/print.go: func %s (loop mode) -/\n%s\n", n, txt)
			allBad = append(allBad, bad...)
			var ps, rs []ltype
			for _, fl := range fd.Type.Params.List {
				for range fl.Names {
					ps = append(ps, goTypeOf(fl.Type))
				}
			}
			for _, fl := range fd.Type.Results.List {
				for range fl.Names {
					rs = append(rs, goTypeOf(fl.Type))
				}
			}
			callees[n] = lpCallee{lean: n, params: ps, rets: rs, option: true}
		}
	}
	sb.WriteString("end Redact.Trans\n")
	out := filepath.Join(outdir, "Trans.lean")
	old, _ := os.ReadFile(out)
	if string(old) != sb.String() {
		if err := os.WriteFile(out, []byte(sb.String()), 0o644); err != nil {
			fmt.Fprintln(os.Stderr, err)
			os.Exit(1)
		}
	}
	if allBad == nil {
		allBad = []string{}
	}
	return allBad
}
