// The printer's mode/override brackets (internal/rfmt/helpers.go: startUnsafe, startPreRedactable,
// startSafeOverride, startUnsafeOverride, restorer.restore) and the SafeWriter methods of the printer
// (internal/rfmt/printer_adapter.go) that are a bracket around one buffer write. A dedicated, tiny
// translator: the printer is seen as GoPP = {buf : GoBuffer, override : Int}, a restorer as
// GoRestorer = {prevMode, prevOverride} (its pointer to the printer is the printer threaded through).
// Statement forms outside the handful below are `untranslatable`.
package main

import (
	"fmt"
	"go/ast"
	"go/token"
	"strings"
)

type ppCtx struct {
	fset   *token.FileSet
	recv   string
	locals map[string]bool
	cints  map[string]int64
	bad    []string
}

func (c *ppCtx) fail(what string, n ast.Node) string {
	c.bad = append(c.bad, what+" at "+c.fset.Position(n.Pos()).String())
	return fmt.Sprintf("(untranslatable %q)", what)
}

func isSel(e ast.Expr, x, sel string) bool {
	se, ok := e.(*ast.SelectorExpr)
	if !ok || se.Sel.Name != sel {
		return false
	}
	id, ok := se.X.(*ast.Ident)
	return ok && id.Name == x
}

// p.buf.M(args)  (or r.p.buf.M(args) for the restorer)
func (c *ppCtx) bufCall(e ast.Expr) (method string, args []ast.Expr, ok bool) {
	call, ok := e.(*ast.CallExpr)
	if !ok {
		return "", nil, false
	}
	se, ok := call.Fun.(*ast.SelectorExpr)
	if !ok {
		return "", nil, false
	}
	if !c.isBuf(se.X) {
		return "", nil, false
	}
	return se.Sel.Name, call.Args, true
}

func (c *ppCtx) isPP(e ast.Expr) bool {
	if id, ok := e.(*ast.Ident); ok && id.Name == c.recv && !c.locals["__restorer"] {
		return true
	}
	return c.locals["__restorer"] && isSel(e, c.recv, "p")
}

func (c *ppCtx) isBuf(e ast.Expr) bool {
	se, ok := e.(*ast.SelectorExpr)
	return ok && se.Sel.Name == "buf" && c.isPP(se.X)
}

func (c *ppCtx) isOverride(e ast.Expr) bool {
	se, ok := e.(*ast.SelectorExpr)
	return ok && se.Sel.Name == "override" && c.isPP(se.X)
}

func (c *ppCtx) expr(e ast.Expr) string {
	switch x := e.(type) {
	case *ast.ParenExpr:
		return "(" + c.expr(x.X) + ")"
	case *ast.Ident:
		if c.locals[x.Name] {
			return x.Name
		}
		if v, ok := c.cints[x.Name]; ok {
			return fmt.Sprintf("(%d : Int)", v)
		}
	case *ast.SelectorExpr:
		if c.isOverride(x) {
			return "p.override"
		}
		if c.locals["__restorer"] {
			if id, ok := x.X.(*ast.Ident); ok && id.Name == c.recv && (x.Sel.Name == "prevMode" || x.Sel.Name == "prevOverride") {
				return "r." + x.Sel.Name
			}
		}
		if id, ok := x.X.(*ast.Ident); ok {
			if v, ok := c.cints[id.Name+"."+x.Sel.Name]; ok {
				return fmt.Sprintf("(%d : Int)", v)
			}
		}
	case *ast.BinaryExpr:
		switch x.Op {
		case token.EQL:
			return "(" + c.expr(x.X) + " == " + c.expr(x.Y) + ")"
		case token.NEQ:
			return "(" + c.expr(x.X) + " != " + c.expr(x.Y) + ")"
		}
	case *ast.CallExpr:
		if m, args, ok := c.bufCall(x); ok && m == "GetMode" && len(args) == 0 {
			return "(GetMode p.buf).2"
		}
		// conversions string(s), rune(r), byte(r), []byte(s)
		if id, ok := x.Fun.(*ast.Ident); ok && len(x.Args) == 1 {
			switch id.Name {
			case "string", "rune", "byte":
				return c.expr(x.Args[0])
			}
		}
		if _, ok := x.Fun.(*ast.ArrayType); ok && len(x.Args) == 1 {
			return c.expr(x.Args[0])
		}
	}
	return c.fail("expression "+exprText(c.fset, e), e)
}

// one statement acting on the printer `p`
func (c *ppCtx) stmt(w *lw, s ast.Stmt) {
	switch x := s.(type) {
	case *ast.AssignStmt:
		// _, _ = p.buf.WriteString(s) / _ = p.buf.WriteByte(b)
		if len(x.Rhs) == 1 {
			allBlank := true
			for _, l := range x.Lhs {
				if id, ok := l.(*ast.Ident); !ok || id.Name != "_" {
					allBlank = false
				}
			}
			if allBlank {
				c.stmt(w, &ast.ExprStmt{X: x.Rhs[0]})
				return
			}
		}
		if len(x.Lhs) == 1 && len(x.Rhs) == 1 {
			if id, ok := x.Lhs[0].(*ast.Ident); ok && x.Tok == token.DEFINE {
				rhs := c.expr(x.Rhs[0])
				c.locals[id.Name] = true
				w.line("let mut %s : Int := %s", id.Name, rhs)
				return
			}
			if c.isOverride(x.Lhs[0]) && x.Tok == token.ASSIGN {
				w.line("p := { p with override := %s }", c.expr(x.Rhs[0]))
				return
			}
		}
	case *ast.ExprStmt:
		if m, args, ok := c.bufCall(x.X); ok {
			switch {
			case m == "SetMode" && len(args) == 1:
				w.line("p := { p with buf := SetMode p.buf %s }", c.expr(args[0]))
				return
			case (m == "Write" || m == "WriteString" || m == "WriteByte" || m == "WriteRune") && len(args) == 1:
				w.line("p := { p with buf := (%s p.buf %s).1 }", m, c.expr(args[0]))
				return
			}
		}
	case *ast.IfStmt:
		if x.Init == nil && x.Else == nil {
			w.line("if %s then", c.expr(x.Cond))
			w.ind++
			if len(x.Body.List) == 0 {
				w.line("pure ()")
			}
			for _, b := range x.Body.List {
				c.stmt(w, b)
			}
			w.ind--
			return
		}
	case *ast.ReturnStmt:
		if len(x.Results) == 1 {
			if cl, ok := x.Results[0].(*ast.CompositeLit); ok {
				if id, ok := cl.Type.(*ast.Ident); ok && id.Name == "restorer" && len(cl.Elts) == 3 {
					if pid, ok := cl.Elts[0].(*ast.Ident); ok && pid.Name == c.recv {
						w.line("return (p, { prevMode := %s, prevOverride := %s })", c.expr(cl.Elts[1]), c.expr(cl.Elts[2]))
						return
					}
				}
			}
		}
	}
	w.line("%s", c.fail(fmt.Sprintf("statement %T", s), s))
}

func hasReturn(b *ast.BlockStmt) bool {
	found := false
	ast.Inspect(b, func(n ast.Node) bool {
		if _, ok := n.(*ast.ReturnStmt); ok {
			found = true
		}
		return true
	})
	return found
}

// translatePPStart: func (p *pp) startX() restorer
func translatePPStart(fset *token.FileSet, fd *ast.FuncDecl, cints map[string]int64) (string, []string) {
	c := &ppCtx{fset: fset, recv: fd.Recv.List[0].Names[0].Name, locals: map[string]bool{}, cints: cints}
	w := &lw{ind: 1}
	w.line("let mut p := p_in")
	for _, s := range fd.Body.List {
		c.stmt(w, s)
	}
	return fmt.Sprintf("def PP_%s (p_in : GoPP) : GoPP × GoRestorer := Id.run do\n%s", fd.Name.Name, w.sb.String()), c.bad
}

// translatePPRestore: func (r restorer) restore()
func translatePPRestore(fset *token.FileSet, fd *ast.FuncDecl, cints map[string]int64) (string, []string) {
	c := &ppCtx{fset: fset, recv: fd.Recv.List[0].Names[0].Name, locals: map[string]bool{"__restorer": true}, cints: cints}
	w := &lw{ind: 1}
	w.line("let mut p := p_in")
	for _, s := range fd.Body.List {
		c.stmt(w, s)
	}
	w.line("return p")
	return fmt.Sprintf("def PP_restore (r : GoRestorer) (p_in : GoPP) : GoPP := Id.run do\n%s", w.sb.String()), c.bad
}

// translatePPMethod: func (p *pp) M(x T) { defer p.startX().restore(); <buffer writes> }
func translatePPMethod(fset *token.FileSet, fd *ast.FuncDecl, cints map[string]int64) (string, []string) {
	c := &ppCtx{fset: fset, recv: fd.Recv.List[0].Names[0].Name, locals: map[string]bool{}, cints: cints}
	var params []string
	for _, f := range fd.Type.Params.List {
		t := goTypeOf(f.Type)
		for _, n := range f.Names {
			c.locals[n.Name] = true
			params = append(params, fmt.Sprintf("(%s : %s)", n.Name, leanType(t)))
		}
	}
	w := &lw{ind: 1}
	if len(fd.Body.List) == 0 || hasReturn(fd.Body) {
		return "", []string{"adapter method " + fd.Name.Name + ": empty or with return"}
	}
	start := ""
	if ds, ok := fd.Body.List[0].(*ast.DeferStmt); ok {
		// defer p.startX().restore()
		if se, ok := ds.Call.Fun.(*ast.SelectorExpr); ok && se.Sel.Name == "restore" && len(ds.Call.Args) == 0 {
			if inner, ok := se.X.(*ast.CallExpr); ok && len(inner.Args) == 0 {
				if ise, ok := inner.Fun.(*ast.SelectorExpr); ok {
					if id, ok := ise.X.(*ast.Ident); ok && id.Name == c.recv && strings.HasPrefix(ise.Sel.Name, "start") {
						start = ise.Sel.Name
					}
				}
			}
		}
	}
	if start == "" {
		return fmt.Sprintf("def PP_%s : Unit := untranslatable \"no leading defer p.startX().restore()\"\n", fd.Name.Name),
			[]string{"adapter method " + fd.Name.Name + ": no leading defer p.startX().restore()"}
	}
	w.line("let (p0, rst_) := PP_%s p_in", start)
	w.line("let mut p := p0")
	for _, s := range fd.Body.List[1:] {
		if _, ok := s.(*ast.DeferStmt); ok {
			w.line("%s", c.fail("second defer", s))
			continue
		}
		c.stmt(w, s)
	}
	w.line("return PP_restore rst_ p")
	return fmt.Sprintf("def PP_%s (p_in : GoPP) %s : GoPP := Id.run do\n%s", fd.Name.Name, strings.Join(params, " "), w.sb.String()), c.bad
}
