// A small Go -> Lean translator for straight-line code (assignments, if/else,
// switch, early return, method calls on a mutable receiver, slices of bytes):
// the functions it is pointed at are re-translated from /repo on every run
// into lean/RedactVerif/Generated/Trans.lean as Lean `do` blocks (mutable
// variables become `let mut`, `return` stays `return`), and Props/Trans*.lean
// proves that each translated function computes what the hand-written model
// (the one the property theorems are about) computes. A construct outside the
// subset makes the translator emit `untranslatable "<what>"`, which no theorem
// accepts, so a change that leaves the subset is reported, not skipped.
package main

import (
	"fmt"
	"go/ast"
	"go/token"
	"sort"
	"strconv"
	"strings"
)

type ltype int

const (
	tUnknown ltype = iota
	tInt
	tByte
	tBool
	tBytes   // string, []byte, strings.Builder contents
	tFmtState
	tBuffer
	tMode
	tErr
)

type trCtx struct {
	fset    *token.FileSet
	vars    map[string]ltype // local variables and parameters
	decl    map[string]bool  // already declared with `let mut`
	recv    string           // receiver name ("" if none)
	recvPtr bool
	consts  map[string]string // package-level constants / qualified names -> Lean text
	cints   map[string]int64  // integer constants: rendered at the type the context wants
	ctypes  map[string]ltype
	retN    int
	bad     []string
	monadic bool // Except monad (slice expressions can panic)
	methods map[string]methodSig
	named   []string // named results
}

// qualified calls of functions translated earlier (package alias + name -> Lean name, parameter and result types);
// set by the driver before translating a file whose functions delegate to them (api.go)
var trQCalls = map[string]lpCallee{}

type methodSig struct {
	nret   int
	ptr    bool
	params []ltype
	rets   []ltype
}

func (c *trCtx) fail(what string, n ast.Node) string {
	pos := ""
	if n != nil {
		pos = c.fset.Position(n.Pos()).String()
	}
	c.bad = append(c.bad, what+" at "+pos)
	return fmt.Sprintf("(untranslatable %s)", strconv.Quote(what))
}

func goTypeOf(e ast.Expr) ltype {
	switch t := e.(type) {
	case *ast.Ident:
		switch t.Name {
		case "int", "rune", "int32", "int64":
			return tInt
		case "byte", "uint8":
			return tByte
		case "bool":
			return tBool
		case "string":
			return tBytes
		case "OutputMode":
			return tMode
		case "Buffer", "StringBuilder":
			return tBuffer
		case "error":
			return tErr
		case "RedactableString", "RedactableBytes":
			return tBytes
		}
	case *ast.ArrayType:
		if id, ok := t.Elt.(*ast.Ident); ok && (id.Name == "byte" || id.Name == "uint8") && t.Len == nil {
			return tBytes
		}
	case *ast.SelectorExpr:
		if x, ok := t.X.(*ast.Ident); ok {
			switch x.Name + "." + t.Sel.Name {
			case "fmt.State":
				return tFmtState
			case "strings.Builder":
				return tBytes
			case "m.RedactableBytes", "m.RedactableString":
				return tBytes
			case "i.SafeString", "i.SafeBytes":
				return tBytes
			case "i.SafeRune":
				return tInt
			case "i.SafeByte":
				return tByte
			}
		}
	case *ast.StarExpr:
		return goTypeOf(t.X)
	}
	return tUnknown
}

func leanType(t ltype) string {
	switch t {
	case tInt:
		return "Int"
	case tByte:
		return "UInt8"
	case tBool:
		return "Bool"
	case tBytes:
		return "List UInt8"
	case tFmtState:
		return "GoFmtState"
	case tBuffer:
		return "GoBuffer"
	case tMode:
		return "Int"
	case tErr:
		return "Unit"
	}
	return "Unit"
}

func leanBytes(s string) string {
	if len(s) == 0 {
		return "([] : List UInt8)"
	}
	var parts []string
	for _, b := range []byte(s) {
		parts = append(parts, fmt.Sprintf("0x%02X", b))
	}
	return "([" + strings.Join(parts, ", ") + "] : List UInt8)"
}

// typeOfExpr: a cheap syntactic type inference, enough to choose literal ascriptions.
func (c *trCtx) typeOfExpr(e ast.Expr) ltype {
	switch x := e.(type) {
	case *ast.ParenExpr:
		return c.typeOfExpr(x.X)
	case *ast.Ident:
		if t, ok := c.vars[x.Name]; ok {
			return t
		}
		if t, ok := c.ctypes[x.Name]; ok {
			return t
		}
		if x.Name == "true" || x.Name == "false" {
			return tBool
		}
	case *ast.BasicLit:
		switch x.Kind {
		case token.INT, token.CHAR:
			return tUnknown // adapts to its context
		case token.STRING:
			return tBytes
		}
	case *ast.SelectorExpr:
		if id, ok := x.X.(*ast.Ident); ok {
			if id.Name == c.recv || c.vars[id.Name] == tBuffer {
				switch x.Sel.Name {
				case "buf":
					return tBytes
				case "validUntil":
					return tInt
				case "mode":
					return tMode
				case "markerOpen":
					return tBool
				}
			}
			if t, ok := c.ctypes[id.Name+"."+x.Sel.Name]; ok {
				return t
			}
		}
	case *ast.IndexExpr:
		return tByte
	case *ast.SliceExpr:
		return tBytes
	case *ast.StarExpr:
		return c.typeOfExpr(x.X)
	case *ast.UnaryExpr:
		if x.Op == token.NOT {
			return tBool
		}
		return c.typeOfExpr(x.X)
	case *ast.BinaryExpr:
		switch x.Op {
		case token.LAND, token.LOR, token.EQL, token.NEQ, token.LSS, token.LEQ, token.GTR, token.GEQ:
			return tBool
		}
		if t := c.typeOfExpr(x.X); t != tUnknown {
			return t
		}
		return c.typeOfExpr(x.Y)
	case *ast.CallExpr:
		if id, ok := x.Fun.(*ast.Ident); ok {
			switch id.Name {
			case "len", "cap":
				return tInt
			case "append":
				return tBytes
			}
		}
		if at, ok := x.Fun.(*ast.ArrayType); ok && goTypeOf(at) == tBytes {
			return tBytes // []byte(x)
		}
		if id, ok := x.Fun.(*ast.Ident); ok && len(x.Args) == 1 {
			switch id.Name {
			case "RedactableString", "RedactableBytes":
				return tBytes
			case "string":
				if c.typeOfExpr(x.Args[0]) == tBytes {
					return tBytes
				}
			}
		}
		if se, ok := x.Fun.(*ast.SelectorExpr); ok {
			if id, ok := se.X.(*ast.Ident); ok {
				switch id.Name + "." + se.Sel.Name {
				case "bytes.HasSuffix", "bytes.Equal":
					return tBool
				case "strconv.Itoa":
					return tBytes
				case "utf8.RuneLen":
					return tInt
				}
				if ce, ok := trQCalls[id.Name+"."+se.Sel.Name]; ok && len(ce.rets) == 1 {
					return ce.rets[0]
				}
				if c.vars[id.Name] == tFmtState && se.Sel.Name == "Flag" {
					return tBool
				}
				if c.vars[id.Name] == tBytes && se.Sel.Name == "String" {
					return tBytes
				}
			}
		}
	}
	return tUnknown
}

func (c *trCtx) lit(x *ast.BasicLit, want ltype) string {
	switch x.Kind {
	case token.INT:
		v, err := strconv.ParseInt(x.Value, 0, 64)
		if err != nil {
			return c.fail("integer literal "+x.Value, x)
		}
		if want == tByte {
			return fmt.Sprintf("(%d : UInt8)", v)
		}
		return fmt.Sprintf("(%d : Int)", v)
	case token.FLOAT:
		// an untyped constant such as 1e6 used as an int
		f, err := strconv.ParseFloat(x.Value, 64)
		if err != nil || f != float64(int64(f)) || want == tByte {
			return c.fail("float literal "+x.Value, x)
		}
		return fmt.Sprintf("(%d : Int)", int64(f))
	case token.CHAR:
		r, _, _, err := strconv.UnquoteChar(x.Value[1:len(x.Value)-1], '\'')
		if err != nil {
			return c.fail("char literal "+x.Value, x)
		}
		if want == tByte {
			return fmt.Sprintf("(%d : UInt8)", r)
		}
		return fmt.Sprintf("(%d : Int)", r)
	case token.STRING:
		s, err := strconv.Unquote(x.Value)
		if err != nil {
			return c.fail("string literal", x)
		}
		return leanBytes(s)
	}
	return c.fail("literal", x)
}

// expr translates a pure expression; `want` guides literals.
func (c *trCtx) expr(e ast.Expr, want ltype) string {
	switch x := e.(type) {
	case *ast.ParenExpr:
		return "(" + c.expr(x.X, want) + ")"
	case *ast.BasicLit:
		return c.lit(x, want)
	case *ast.Ident:
		switch x.Name {
		case "true", "false":
			return x.Name
		case "nil":
			if want == tBytes {
				return "([] : List UInt8)"
			}
			return "()"
		}
		if _, ok := c.vars[x.Name]; ok {
			return leanName(x.Name)
		}
		if v, ok := c.consts[x.Name]; ok {
			return v
		}
		if v, ok := c.cints[x.Name]; ok {
			return c.intConst(v, want)
		}
		return c.fail("identifier "+x.Name, x)
	case *ast.SelectorExpr:
		if id, ok := x.X.(*ast.Ident); ok {
			if id.Name == c.recv || c.vars[id.Name] == tBuffer {
				switch x.Sel.Name {
				case "buf", "validUntil", "mode", "markerOpen":
					return leanName(id.Name) + "." + x.Sel.Name
				}
			}
			if v, ok := c.consts[id.Name+"."+x.Sel.Name]; ok {
				return v
			}
			if v, ok := c.cints[id.Name+"."+x.Sel.Name]; ok {
				return c.intConst(v, want)
			}
		}
		return c.fail("selector "+exprText(c.fset, x), x)
	case *ast.UnaryExpr:
		switch x.Op {
		case token.NOT:
			return "(!" + c.expr(x.X, tBool) + ")"
		case token.SUB:
			return "(-" + c.expr(x.X, tInt) + ")"
		}
		return c.fail("unary "+x.Op.String(), x)
	case *ast.BinaryExpr:
		lt, rt := c.typeOfExpr(x.X), c.typeOfExpr(x.Y)
		t := lt
		if t == tUnknown {
			t = rt
		}
		if t == tUnknown {
			t = tInt
		}
		l, r := c.expr(x.X, t), c.expr(x.Y, t)
		switch x.Op {
		case token.LAND:
			return "(" + c.expr(x.X, tBool) + " && " + c.expr(x.Y, tBool) + ")"
		case token.LOR:
			return "(" + c.expr(x.X, tBool) + " || " + c.expr(x.Y, tBool) + ")"
		case token.EQL:
			return "(" + l + " == " + r + ")"
		case token.NEQ:
			return "(" + l + " != " + r + ")"
		case token.LSS:
			return "(decide (" + l + " < " + r + "))"
		case token.LEQ:
			return "(decide (" + l + " ≤ " + r + "))"
		case token.GTR:
			return "(decide (" + l + " > " + r + "))"
		case token.GEQ:
			return "(decide (" + l + " ≥ " + r + "))"
		case token.ADD:
			return "(" + l + " + " + r + ")"
		case token.SUB:
			return "(" + l + " - " + r + ")"
		case token.MUL:
			return "(" + l + " * " + r + ")"
		}
		return c.fail("binary "+x.Op.String(), x)
	case *ast.IndexExpr:
		// s[i] on a constant string (m.StartS[0]) or a byte slice
		return "(goIndex " + c.expr(x.X, tBytes) + " " + c.expr(x.Index, tInt) + ")"
	case *ast.SliceExpr:
		if x.Slice3 {
			return c.fail("3-index slice", x)
		}
		base := c.expr(x.X, tBytes)
		switch {
		case x.Low == nil && x.High != nil:
			return "(goSliceTo " + base + " " + c.expr(x.High, tInt) + ")"
		case x.Low != nil && x.High == nil:
			return "(goSliceFrom " + base + " " + c.expr(x.Low, tInt) + ")"
		case x.Low != nil && x.High != nil:
			return "(goSlice " + base + " " + c.expr(x.Low, tInt) + " " + c.expr(x.High, tInt) + ")"
		}
		return base
	case *ast.StarExpr:
		return c.expr(x.X, want)
	case *ast.CallExpr:
		return c.call(x, want)
	}
	return c.fail("expression "+exprText(c.fset, e), e)
}

func (c *trCtx) intConst(v int64, want ltype) string {
	if want == tByte {
		return fmt.Sprintf("(%d : UInt8)", v)
	}
	return fmt.Sprintf("(%d : Int)", v)
}

func leanName(n string) string {
	switch n {
	case "end", "from", "at", "then", "do", "open", "section", "namespace", "fun", "match", "with", "if", "else", "let", "have", "show", "by":
		return n + "'"
	}
	return n
}

func (c *trCtx) call(x *ast.CallExpr, want ltype) string {
	if at, ok := x.Fun.(*ast.ArrayType); ok && len(x.Args) == 1 && goTypeOf(at) == tBytes {
		return c.expr(x.Args[0], tBytes) // []byte(s)
	}
	if id, ok := x.Fun.(*ast.Ident); ok {
		switch id.Name {
		case "string":
			if len(x.Args) == 1 && c.typeOfExpr(x.Args[0]) == tBytes {
				return c.expr(x.Args[0], tBytes)
			}
		case "rune":
			if len(x.Args) == 1 && c.typeOfExpr(x.Args[0]) == tInt {
				return c.expr(x.Args[0], tInt)
			}
		case "byte":
			if len(x.Args) == 1 && c.typeOfExpr(x.Args[0]) == tByte {
				return c.expr(x.Args[0], tByte)
			}
		}
		switch id.Name {
		case "RedactableString", "RedactableBytes":
			if len(x.Args) == 1 {
				return c.expr(x.Args[0], tBytes)
			}
		case "len":
			return "(goLen " + c.expr(x.Args[0], tBytes) + ")"
		case "append":
			if len(x.Args) == 2 && x.Ellipsis != token.NoPos {
				return "(" + c.expr(x.Args[0], tBytes) + " ++ " + c.expr(x.Args[1], tBytes) + ")"
			}
		case "make":
			// make([]byte, 0, n): an empty slice (capacity is not observable in the translated subset)
			if len(x.Args) == 3 {
				if _, ok := x.Args[0].(*ast.ArrayType); ok && goTypeOf(x.Args[0]) == tBytes {
					if l, ok := x.Args[1].(*ast.BasicLit); ok && l.Value == "0" {
						return "([] : List UInt8)"
					}
				}
			}
		}
	}
	if se, ok := x.Fun.(*ast.SelectorExpr); ok {
		if id, ok := se.X.(*ast.Ident); ok {
			q := id.Name + "." + se.Sel.Name
			if ce, ok := trQCalls[q]; ok && len(ce.params) == len(x.Args) {
				r := "(" + ce.lean
				for i, a := range x.Args {
					r += " " + c.expr(a, ce.params[i])
				}
				return r + ")"
			}
			switch q {
			case "ReStripMarkers.ReplaceAllString", "ReStripMarkers.ReplaceAll", "m.ReStripMarkers.ReplaceAllString", "m.ReStripMarkers.ReplaceAll":
				// regexp.MustCompile("[‹›]") (its source text is checked in Props/FactsConsts.lean)
				return "(goReplaceMarkers " + c.expr(x.Args[0], tBytes) + " " + c.expr(x.Args[1], tBytes) + ")"
			case "ReStripSensitive.ReplaceAllString", "ReStripSensitive.ReplaceAll", "m.ReStripSensitive.ReplaceAllString", "m.ReStripSensitive.ReplaceAll":
				// regexp.MustCompile("‹[^‹›]*›")
				return "(goReplaceEnvelopes " + c.expr(x.Args[0], tBytes) + " " + c.expr(x.Args[1], tBytes) + ")"
			case "bytes.HasSuffix":
				return "(goHasSuffix " + c.expr(x.Args[0], tBytes) + " " + c.expr(x.Args[1], tBytes) + ")"
			case "bytes.Equal":
				return "(" + c.expr(x.Args[0], tBytes) + " == " + c.expr(x.Args[1], tBytes) + ")"
			case "strconv.Itoa":
				return "(goItoa " + c.expr(x.Args[0], tInt) + ")"
			case "utf8.RuneLen":
				return "(goRuneLen " + c.expr(x.Args[0], tInt) + ")"
			case "m.RedactableBytes", "m.RedactableString":
				return c.expr(x.Args[0], tBytes)
			case "escape.InternalEscapeBytes":
				return "(goInternalEscapeBytes " + c.expr(x.Args[0], tBytes) + " " + c.expr(x.Args[1], tInt) + " " + c.expr(x.Args[2], tBool) + " " + c.expr(x.Args[3], tBool) + ")"
			}
			// a method of the receiver's type called on a Buffer variable, used as a value:
			// only methods that do not modify their receiver may appear inside expressions
			if c.vars[id.Name] == tBuffer {
				if sig, ok := c.methods[se.Sel.Name]; ok && !sig.ptr {
					args := []string{leanName(id.Name)}
					for i, a := range x.Args {
						t := tUnknown
						if i < len(sig.params) {
							t = sig.params[i]
						}
						args = append(args, c.expr(a, t))
					}
					return "(" + se.Sel.Name + " " + strings.Join(args, " ") + ")"
				}
			}
			if c.vars[id.Name] == tFmtState {
				switch se.Sel.Name {
				case "Flag":
					return "(" + leanName(id.Name) + ".Flag " + c.expr(x.Args[0], tInt) + ")"
				case "Width", "Precision":
					return leanName(id.Name) + "." + se.Sel.Name
				}
			}
			if c.vars[id.Name] == tBytes && se.Sel.Name == "String" && len(x.Args) == 0 {
				return leanName(id.Name)
			}
		}
		// m.RedactableString(b.buf).StripMarkers()
		if se.Sel.Name == "StripMarkers" && len(x.Args) == 0 {
			return "(goStripMarkers " + c.expr(se.X, tBytes) + ")"
		}
	}
	return c.fail("call "+exprText(c.fset, x.Fun), x)
}

type lw struct {
	sb  strings.Builder
	ind int
}

func (w *lw) line(f string, a ...interface{}) {
	w.sb.WriteString(strings.Repeat("  ", w.ind))
	fmt.Fprintf(&w.sb, f, a...)
	w.sb.WriteByte('\n')
}

func (c *trCtx) assign(w *lw, name string, t ltype, rhs string, define bool) {
	if name == "_" {
		return
	}
	n := leanName(name)
	if define && !c.decl[name] {
		c.decl[name] = true
		if t != tUnknown {
			c.vars[name] = t
			w.line("let mut %s : %s := %s", n, leanType(t), rhs)
		} else {
			c.vars[name] = tUnknown
			w.line("let mut %s := %s", n, rhs)
		}
		return
	}
	w.line("%s := %s", n, rhs)
}

// builderCall: f.WriteByte / WriteString / WriteRune on a strings.Builder local.
func (c *trCtx) builderCall(w *lw, recv string, sel string, args []ast.Expr) bool {
	n := leanName(recv)
	switch sel {
	case "WriteByte":
		w.line("%s := %s ++ [%s]", n, n, c.expr(args[0], tByte))
	case "WriteString":
		w.line("%s := %s ++ %s", n, n, c.expr(args[0], tBytes))
	case "WriteRune":
		w.line("%s := %s ++ goEncodeRune %s", n, n, c.expr(args[0], tInt))
	default:
		return false
	}
	return true
}

func (c *trCtx) retTuple(rs []ast.Expr, fd *ast.FuncDecl) string {
	var types []ltype
	if fd.Type.Results != nil {
		for _, f := range fd.Type.Results.List {
			k := len(f.Names)
			if k == 0 {
				k = 1
			}
			for i := 0; i < k; i++ {
				types = append(types, goTypeOf(f.Type))
			}
		}
	}
	var parts []string
	for i, r := range rs {
		t := tUnknown
		if i < len(types) {
			t = types[i]
		}
		parts = append(parts, c.expr(r, t))
	}
	if len(parts) == 1 {
		return parts[0]
	}
	return "(" + strings.Join(parts, ", ") + ")"
}

func (c *trCtx) stmts(w *lw, list []ast.Stmt, fd *ast.FuncDecl) {
	for i := 0; i < len(list); i++ {
		if i+1 < len(list) {
			if v, recv, n, ok := c.growIdiom(list[i], list[i+1]); ok {
				// m, ok := b.tryGrowByReslice(N); if !ok { m = b.grow(N) }
				// == extend b.buf by N bytes, m = the old length (capacity management is not translated)
				c.assign(w, v, tInt, "(goLen "+leanName(recv)+".buf)", true)
				w.line("%s := { %s with buf := goExtend %s.buf %s }", leanName(recv), leanName(recv), leanName(recv), n)
				i++
				continue
			}
		}
		c.stmt(w, list[i], fd)
	}
}

// growIdiom recognises `m, ok := b.tryGrowByReslice(N)` followed by `if !ok { m = b.grow(N) }`.
func (c *trCtx) growIdiom(s1, s2 ast.Stmt) (v, recv, n string, ok bool) {
	as, ok1 := s1.(*ast.AssignStmt)
	is, ok2 := s2.(*ast.IfStmt)
	if !ok1 || !ok2 || len(as.Lhs) != 2 || len(as.Rhs) != 1 || as.Tok != token.DEFINE {
		return
	}
	call, okc := as.Rhs[0].(*ast.CallExpr)
	if !okc || len(call.Args) != 1 {
		return
	}
	se, oks := call.Fun.(*ast.SelectorExpr)
	if !oks || se.Sel.Name != "tryGrowByReslice" {
		return
	}
	rid, okr := se.X.(*ast.Ident)
	mid, okm := as.Lhs[0].(*ast.Ident)
	oid, oko := as.Lhs[1].(*ast.Ident)
	if !okr || !okm || !oko || c.vars[rid.Name] != tBuffer {
		return
	}
	// if !ok { m = b.grow(N) }
	un, oku := is.Cond.(*ast.UnaryExpr)
	if !oku || un.Op != token.NOT || is.Init != nil || is.Else != nil || len(is.Body.List) != 1 {
		return
	}
	if cid, okk := un.X.(*ast.Ident); !okk || cid.Name != oid.Name {
		return
	}
	as2, oka := is.Body.List[0].(*ast.AssignStmt)
	if !oka || as2.Tok != token.ASSIGN || len(as2.Lhs) != 1 || len(as2.Rhs) != 1 {
		return
	}
	if l2, okl := as2.Lhs[0].(*ast.Ident); !okl || l2.Name != mid.Name {
		return
	}
	call2, okc2 := as2.Rhs[0].(*ast.CallExpr)
	if !okc2 || len(call2.Args) != 1 {
		return
	}
	se2, oks2 := call2.Fun.(*ast.SelectorExpr)
	if !oks2 || se2.Sel.Name != "grow" {
		return
	}
	if r2, okr2 := se2.X.(*ast.Ident); !okr2 || r2.Name != rid.Name {
		return
	}
	if exprText(c.fset, call.Args[0]) != exprText(c.fset, call2.Args[0]) {
		return
	}
	return mid.Name, rid.Name, c.expr(call.Args[0], tInt), true
}

// copyCall recognises copy(x.buf[m:], src) / utf8.EncodeRune(x.buf[m:], r): (receiver, offset, source bytes).
func (c *trCtx) copyCall(e ast.Expr) (recv, off, src string, ok bool) {
	call, okc := e.(*ast.CallExpr)
	if !okc || len(call.Args) != 2 {
		return
	}
	isCopy, isEnc := false, false
	if id, oki := call.Fun.(*ast.Ident); oki && id.Name == "copy" {
		isCopy = true
	}
	if se, oks := call.Fun.(*ast.SelectorExpr); oks {
		if id, oki := se.X.(*ast.Ident); oki && id.Name == "utf8" && se.Sel.Name == "EncodeRune" {
			isEnc = true
		}
	}
	if !isCopy && !isEnc {
		return
	}
	sl, oksl := call.Args[0].(*ast.SliceExpr)
	if !oksl || sl.Low == nil || sl.High != nil {
		return
	}
	fs, okf := sl.X.(*ast.SelectorExpr)
	if !okf || fs.Sel.Name != "buf" {
		return
	}
	rid, okr := fs.X.(*ast.Ident)
	if !okr || c.vars[rid.Name] != tBuffer {
		return
	}
	if isCopy {
		return rid.Name, c.expr(sl.Low, tInt), c.expr(call.Args[1], tBytes), true
	}
	return rid.Name, c.expr(sl.Low, tInt), "(goEncodeRune " + c.expr(call.Args[1], tInt) + ")", true
}

// methodCall: x.M(args) where x is a Buffer variable and M a translated method with a pointer
// receiver: the Lean function returns the updated buffer (and the results).
func (c *trCtx) methodCall(call *ast.CallExpr) (recv string, lean string, sig methodSig, ok bool) {
	se, oks := call.Fun.(*ast.SelectorExpr)
	if !oks {
		return
	}
	id, oki := se.X.(*ast.Ident)
	if !oki {
		// b.Buffer.M(...): the embedded buffer of a StringBuilder
		if inner, oks2 := se.X.(*ast.SelectorExpr); oks2 && inner.Sel.Name == "Buffer" {
			id, oki = inner.X.(*ast.Ident)
		}
	}
	if !oki || c.vars[id.Name] != tBuffer {
		return
	}
	sig, okm := c.methods[se.Sel.Name]
	if !okm {
		return
	}
	args := []string{leanName(id.Name)}
	for i, a := range call.Args {
		t := tUnknown
		if i < len(sig.params) {
			t = sig.params[i]
		}
		args = append(args, c.expr(a, t))
	}
	return id.Name, "(" + se.Sel.Name + " " + strings.Join(args, " ") + ")", sig, true
}

func (c *trCtx) stmt(w *lw, s ast.Stmt, fd *ast.FuncDecl) {
	switch x := s.(type) {
	case *ast.DeclStmt:
		gd, ok := x.Decl.(*ast.GenDecl)
		if !ok || (gd.Tok != token.VAR && gd.Tok != token.CONST) {
			w.line("%s", c.fail("declaration", x))
			return
		}
		for _, sp := range gd.Specs {
			vs := sp.(*ast.ValueSpec)
			t := goTypeOf(vs.Type)
			for i, n := range vs.Names {
				init := ""
				if i < len(vs.Values) {
					init = c.expr(vs.Values[i], t)
				} else {
					switch t {
					case tBytes:
						init = "[]"
					case tInt:
						init = "0"
					case tBool:
						init = "false"
					default:
						init = c.fail("zero value", vs)
					}
				}
				c.assign(w, n.Name, t, init, true)
			}
		}
	case *ast.AssignStmt:
		define := x.Tok == token.DEFINE
		if x.Tok != token.DEFINE && x.Tok != token.ASSIGN {
			w.line("%s", c.fail("assignment operator "+x.Tok.String(), x))
			return
		}
		if len(x.Lhs) == len(x.Rhs) {
			for i := range x.Lhs {
				c.assign1(w, x.Lhs[i], x.Rhs[i], define)
			}
			return
		}
		if len(x.Rhs) == 1 {
			if call, okc := x.Rhs[0].(*ast.CallExpr); okc {
				if recv, lean, sig, ok := c.methodCall(call); ok && sig.ptr && sig.nret == len(x.Lhs) {
					tmp := fmt.Sprintf("t_%s_%d", recv, c.fset.Position(x.Pos()).Line)
					w.line("let %s := %s", tmp, lean)
					w.line("%s := %s.1", leanName(recv), tmp)
					for i, l := range x.Lhs {
						id, okid := l.(*ast.Ident)
						if !okid {
							w.line("%s", c.fail("tuple assignment target", x))
							return
						}
						proj := tmp + ".2"
						if sig.nret > 1 {
							proj = fmt.Sprintf("%s.2.%d", tmp, i+1)
						}
						t := tUnknown
						if i < len(sig.rets) {
							t = sig.rets[i]
						}
						c.assign(w, id.Name, t, proj, define)
					}
					return
				}
			}
			// tuple-valued call
			rhs := c.expr(x.Rhs[0], tUnknown)
			var names []string
			for _, l := range x.Lhs {
				id, ok := l.(*ast.Ident)
				if !ok {
					w.line("%s", c.fail("tuple assignment target", x))
					return
				}
				names = append(names, id.Name)
			}
			// fmt.State's Width/Precision: (Int × Bool)
			tmp := "t_" + strings.Join(names, "_")
			w.line("let %s := %s", tmp, rhs)
			types := []ltype{tInt, tBool}
			for i, n := range names {
				proj := fmt.Sprintf("%s.%d", tmp, i+1)
				t := tUnknown
				if i < len(types) {
					t = types[i]
				}
				c.assign(w, n, t, proj, define)
			}
			return
		}
		w.line("%s", c.fail("assignment shape", x))
	case *ast.ExprStmt:
		call, ok := x.X.(*ast.CallExpr)
		if !ok {
			w.line("%s", c.fail("expression statement", x))
			return
		}
		if se, ok := call.Fun.(*ast.SelectorExpr); ok {
			if id, ok := se.X.(*ast.Ident); ok {
				if c.vars[id.Name] == tBytes && c.builderCall(w, id.Name, se.Sel.Name, call.Args) {
					return
				}
			}
		}
		if recv, off, src, ok := c.copyCall(call); ok {
			w.line("%s := { %s with buf := goCopyAt %s.buf %s %s }", leanName(recv), leanName(recv), leanName(recv), off, src)
			return
		}
		if recv, lean, sig, ok := c.methodCall(call); ok {
			if !sig.ptr {
				return // a value-receiver method called for nothing
			}
			if sig.nret == 0 {
				w.line("%s := %s", leanName(recv), lean)
			} else {
				w.line("%s := %s.1", leanName(recv), lean)
			}
			return
		}
		w.line("%s", c.fail("call statement "+exprText(c.fset, call.Fun), x))
	case *ast.IfStmt:
		if x.Init != nil {
			c.stmt(w, x.Init, fd)
		}
		w.line("if %s then", c.expr(x.Cond, tBool))
		w.ind++
		if len(x.Body.List) == 0 {
			w.line("pure ()")
		}
		c.stmts(w, x.Body.List, fd)
		w.ind--
		if x.Else != nil {
			w.line("else")
			w.ind++
			switch e := x.Else.(type) {
			case *ast.BlockStmt:
				if len(e.List) == 0 {
					w.line("pure ()")
				}
				c.stmts(w, e.List, fd)
			default:
				c.stmt(w, e, fd)
			}
			w.ind--
		}
	case *ast.SwitchStmt:
		if x.Init != nil || x.Tag == nil {
			w.line("%s", c.fail("switch form", x))
			return
		}
		tt := c.typeOfExpr(x.Tag)
		tag := c.expr(x.Tag, tt)
		first := true
		var deflt *ast.CaseClause
		for _, cs := range x.Body.List {
			cc := cs.(*ast.CaseClause)
			if cc.List == nil {
				deflt = cc
				continue
			}
			var alts []string
			for _, v := range cc.List {
				alts = append(alts, "("+tag+" == "+c.expr(v, tt)+")")
			}
			kw := "else if"
			if first {
				kw = "if"
				first = false
			}
			w.line("%s %s then", kw, strings.Join(alts, " || "))
			w.ind++
			if len(cc.Body) == 0 {
				w.line("pure ()")
			}
			c.stmts(w, cc.Body, fd)
			w.ind--
		}
		if deflt != nil && !first {
			w.line("else")
			w.ind++
			if len(deflt.Body) == 0 {
				w.line("pure ()")
			}
			c.stmts(w, deflt.Body, fd)
			w.ind--
		}
	case *ast.ReturnStmt:
		if len(x.Results) == 0 {
			w.line("return %s", c.bareReturn())
			return
		}
		if len(x.Results) == 1 {
			if call, okc := x.Results[0].(*ast.CallExpr); okc {
				if recv, lean, sig, ok := c.methodCall(call); ok && sig.ptr && recv == c.recv && sig.nret > 0 {
					w.line("let t_ret := %s", lean)
					w.line("return t_ret")
					return
				}
			}
		}
		if recv, off, src, ok := c.copyCall(x.Results[0]); ok {
			// return copy(b.buf[m:], p), nil
			w.line("let n_copied := goCopyN %s.buf %s %s", leanName(recv), off, src)
			w.line("%s := { %s with buf := goCopyAt %s.buf %s %s }", leanName(recv), leanName(recv), leanName(recv), off, src)
			rest := []string{"n_copied"}
			for _, r := range x.Results[1:] {
				rest = append(rest, c.expr(r, tErr))
			}
			w.line("return %s", c.wrapRet("("+strings.Join(rest, ", ")+")"))
			return
		}
		w.line("return %s", c.wrapRet(c.retTuple(x.Results, fd)))
	case *ast.BlockStmt:
		c.stmts(w, x.List, fd)
	default:
		w.line("%s", c.fail(fmt.Sprintf("statement %T", s), s))
	}
}

func (c *trCtx) bareReturn() string {
	var parts []string
	for _, n := range c.named {
		parts = append(parts, leanName(n))
	}
	r := "()"
	if len(parts) == 1 {
		r = parts[0]
	} else if len(parts) > 1 {
		r = "(" + strings.Join(parts, ", ") + ")"
	}
	return c.wrapRet(r)
}

// wrapRet: a method with a pointer receiver returns the updated receiver too.
func (c *trCtx) wrapRet(r string) string {
	if c.recv != "" && c.recvPtr {
		if c.retN == 0 {
			return leanName(c.recv)
		}
		return "(" + leanName(c.recv) + ", " + r + ")"
	}
	return r
}

func (c *trCtx) assign1(w *lw, lhs, rhs ast.Expr, define bool) {
	if recv, off, src, ok := c.copyCall(rhs); ok {
		if id, oki := lhs.(*ast.Ident); oki && id.Name == "_" {
			w.line("%s := { %s with buf := goCopyAt %s.buf %s %s }", leanName(recv), leanName(recv), leanName(recv), off, src)
			return
		}
	}
	if call, okc := rhs.(*ast.CallExpr); okc {
		if recv, lean, sig, ok := c.methodCall(call); ok && sig.ptr {
			if id, oki := lhs.(*ast.Ident); oki && id.Name == "_" {
				if sig.nret == 0 {
					w.line("%s := %s", leanName(recv), lean)
				} else {
					w.line("%s := %s.1", leanName(recv), lean)
				}
				return
			}
		}
	}
	switch l := lhs.(type) {
	case *ast.SelectorExpr:
		if id, ok := l.X.(*ast.Ident); ok && c.vars[id.Name] == tBuffer {
			ft := c.typeOfExpr(l)
			switch l.Sel.Name {
			case "buf", "validUntil", "mode", "markerOpen":
				w.line("%s := { %s with %s := %s }", leanName(id.Name), leanName(id.Name), l.Sel.Name, c.expr(rhs, ft))
				return
			}
		}
		w.line("%s", c.fail("assignment target "+exprText(c.fset, lhs), lhs))
	case *ast.IndexExpr:
		if fs, ok := l.X.(*ast.SelectorExpr); ok && fs.Sel.Name == "buf" {
			if id, ok := fs.X.(*ast.Ident); ok && c.vars[id.Name] == tBuffer {
				w.line("%s := { %s with buf := goSetAt %s.buf %s %s }", leanName(id.Name), leanName(id.Name), leanName(id.Name), c.expr(l.Index, tInt), c.expr(rhs, tByte))
				return
			}
		}
		w.line("%s", c.fail("assignment target "+exprText(c.fset, lhs), lhs))
	case *ast.Ident:
		t := c.typeOfExpr(rhs)
		if !define {
			if vt, ok := c.vars[l.Name]; ok {
				t = vt
			}
		}
		c.assign(w, l.Name, t, c.expr(rhs, t), define)
	default:
		w.line("%s", c.fail("assignment target "+exprText(c.fset, lhs), lhs))
	}
}

// translateFunc renders one function as a Lean definition.
func translateFunc(fset *token.FileSet, fd *ast.FuncDecl, leanDefName string, consts map[string]string, cints map[string]int64, ctypes map[string]ltype, methods map[string]methodSig) (string, []string) {
	c := &trCtx{fset: fset, vars: map[string]ltype{}, decl: map[string]bool{}, consts: consts, cints: cints, ctypes: ctypes, methods: methods}
	var params []string
	if fd.Recv != nil && len(fd.Recv.List) == 1 && len(fd.Recv.List[0].Names) == 1 {
		if goTypeOf(fd.Recv.List[0].Type) == tBytes {
			// a value receiver of a string / byte-slice type: an ordinary parameter
			n := fd.Recv.List[0].Names[0].Name
			c.vars[n] = tBytes
			c.decl[n] = true
			params = append(params, fmt.Sprintf("(%s : List UInt8)", leanName(n)))
		} else {
			c.recv = fd.Recv.List[0].Names[0].Name
			_, c.recvPtr = fd.Recv.List[0].Type.(*ast.StarExpr)
			c.vars[c.recv] = tBuffer
			params = append(params, fmt.Sprintf("(%s_in : GoBuffer)", c.recv))
		}
	}
	for _, f := range fd.Type.Params.List {
		t := goTypeOf(f.Type)
		for _, n := range f.Names {
			c.vars[n.Name] = t
			c.decl[n.Name] = true
			params = append(params, fmt.Sprintf("(%s : %s)", leanName(n.Name), leanType(t)))
		}
	}
	var rets []string
	if fd.Type.Results != nil {
		for _, f := range fd.Type.Results.List {
			t := goTypeOf(f.Type)
			if len(f.Names) == 0 {
				rets = append(rets, leanType(t))
			}
			for _, n := range f.Names {
				rets = append(rets, leanType(t))
				c.named = append(c.named, n.Name)
				c.vars[n.Name] = t
			}
		}
	}
	ret := "Unit"
	c.retN = len(rets)
	if len(rets) > 0 {
		ret = strings.Join(rets, " × ")
	}
	if c.recv != "" && c.recvPtr {
		if len(rets) == 0 {
			ret = "GoBuffer"
		} else {
			ret = "GoBuffer × " + ret
		}
	}
	w := &lw{ind: 1}
	if c.recv != "" {
		w.line("let mut %s : GoBuffer := %s_in", leanName(c.recv), c.recv)
		c.decl[c.recv] = true
	}
	for _, n := range c.named {
		t := c.vars[n]
		z := "default"
		switch t {
		case tBool:
			z = "false"
		case tInt:
			z = "0"
		case tBytes:
			z = "[]"
		}
		w.line("let mut %s : %s := %s", leanName(n), leanType(t), z)
		c.decl[n] = true
	}
	c.stmts(w, fd.Body.List, fd)
	// falling off the end
	last := ast.Stmt(nil)
	if n := len(fd.Body.List); n > 0 {
		last = fd.Body.List[n-1]
	}
	if _, isRet := last.(*ast.ReturnStmt); !isRet {
		w.line("return %s", c.bareReturn())
	}
	var sb strings.Builder
	fmt.Fprintf(&sb, "def %s %s : %s := Id.run do\n", leanDefName, strings.Join(params, " "), ret)
	sb.WriteString(w.sb.String())
	sort.Strings(c.bad)
	return sb.String(), c.bad
}
