#!/bin/sh
# confirm_mutant.sh <worktree> <outdir>: verify a seeded change in a scratch worktree:
#  (1) existing tests pass with the patch, (2) demo fails with the patch, (3) demo passes without.
export GOFLAGS=-mod=mod GOPROXY=off GOSUMDB=off GOTOOLCHAIN=local
WT=$1; OUT=$2
cd "$WT" || exit 2
git checkout -q . && git clean -fdq
git apply "$OUT/patch.diff" || { echo "patch does not apply"; exit 2; }
if go test -count=1 ./... >/tmp/cm.$$ 2>&1; then echo "1 suite-with-patch: PASS"; else echo "1 suite-with-patch: FAIL"; tail -5 /tmp/cm.$$; fi
cp "$OUT"/demo_test.go . 2>/dev/null
if go test -count=1 -run "Demo|TestC01" . >/tmp/cm.$$ 2>&1; then echo "2 demo-with-patch: PASS (bad)"; else echo "2 demo-with-patch: FAIL (good)"; fi
git checkout -q . 
if go test -count=1 -run "Demo|TestC01" . >/tmp/cm.$$ 2>&1; then echo "3 demo-without-patch: PASS (good)"; else echo "3 demo-without-patch: FAIL (bad)"; tail -5 /tmp/cm.$$; fi
rm -f demo_test.go /tmp/cm.$$
git checkout -q . && git clean -fdq
