#!/usr/bin/env python3
"""Regenerate lean/RedactVerif/Proofs/U/Inv.lean and S/Inv.lean from Proofs/PrinterInv.lean.

The frame theorem of PrinterInv.lean (`spec_all`) is an induction over the 21 functions of the
printer model written against a small vocabulary (Pre, G, GR, G_w, GR_bracket, ...).  The same
induction, read with the vocabulary of U/Basics.lean (printing under an Unsafe override) or
S/Basics.lean (under a Safe override), proves the corresponding frame theorems.  This script
copies the step lemmas and replaces the few places that look inside the vocabulary.
Lean checks the result; nothing here is trusted.
"""
import sys, os
root = os.path.join(os.path.dirname(os.path.abspath(__file__)), '..', 'lean', 'RedactVerif', 'Proofs')
src = open(os.path.join(root, 'PrinterInv.lean')).read()
i = src.index('namespace Redact')
BODY = src[i + len('namespace Redact'):]

def gen(ns, B, header, set_safe):
    body = BODY.replace('end Redact', 'end Redact.' + ns)
    def rep(a, b, cnt=1):
        nonlocal body
        assert body.count(a) == cnt, (a, body.count(a))
        body = body.replace(a, b)
    rep('''def D (p : PP) (r : Res) : Prop :=
  (∀ q, r = .ok q → Inv q.buf ∧ q.buf.mode ≠ .raw ∧ q.override = p.override) ∧
  (∀ b pl, r = .panic b pl → Inv b ∧ ValOk pl)''', '''def D (p : PP) (r : Res) : Prop := GR p r''')
    rep('''  refine ⟨fun q hq => ?_, h.2⟩
  have g := h.1 q hq
  exact ⟨g.1, by rw [g.2.1, hb], by rw [g.2.2, ho]⟩

theorem Pre_congr {p p1 : PP} (hb : p1.buf = p.buf) (hp : Pre p) : Pre p1 := by
  unfold Pre; rw [hb]; exact hp''', '''  refine ⟨fun q hq => ?_, fun b pl hq => ?_⟩
  · have g := h.1 q hq
    exact ⟨by rw [← hb]; exact g.1, by rw [g.2, ho]⟩
  · have g := h.2 b pl hq
    exact ⟨by rw [← hb]; exact g.1, g.2⟩

theorem Pre_congr {p p1 : PP} (hb : p1.buf = p.buf) (hp : Pre p) (ho : p1.override = p.override := by rfl) : Pre p1 := by
  unfold Pre; rw [hb, ho]; exact hp''')
    rep('''theorem GR_panic (p : PP) {b : Buffer} {pl : Val} (hi : Inv b) (hv : ValOk pl) : GR p (.panic b pl) :=''',
        '''theorem GR_panic (p : PP) {b : Buffer} {pl : Val} (hi : %s p.buf b) (hv : ValOk pl) : GR p (.panic b pl) :=''' % B)
    rep('''  ⟨fun q hq => G.trans g (h.1 q hq), h.2⟩''',
        '''  ⟨fun q hq => G.trans g (h.1 q hq), fun b pl hq => ⟨%s.trans g.1 (h.2 b pl hq).1, (h.2 b pl hq).2⟩⟩''' % B)
    rep('''      · exact GR_panic _ hq.1 hpl''', '''      · exact GR_panic _ gq.1 hpl''')
    rep('''          exact ⟨fun r hr => G.trans gq (G.trans (G.trans (G_same hq rfl rfl) w5) (this.1 r hr)), this.2⟩''',
        '''          exact GR_from (G.trans gq (G.trans (G_same hq rfl rfl) w5)) this''')
    rep('''    · rename_i np' heq
      have ⟨i1, _, i3⟩ := hd.1 np' heq
      have g : G p { p with buf := np'.buf.setMode p.buf.mode } := ⟨inv_setMode _ _ i1, setMode_mode _ _, rfl⟩
      exact GS_trans g (S.runScript _ _ (G.pre hp g) hk)
    · -- a panic leaves the nested printer: the buffer is handed back, the method has panicked
      rename_i b pl heq
      have ⟨i1, hpl⟩ := hd.2 b pl heq
      exact ⟨⟨inv_setMode _ _ i1, setMode_mode _ _, rfl⟩, hpl⟩''', '''    · rename_i np' heq
      have g : G p { p with buf := np'.buf.setMode p.buf.mode } := G_nested hp (hd.1 np' heq).1
      exact GS_trans g (S.runScript _ _ (G.pre hp g) hk)
    · -- a panic leaves the nested printer: the buffer is handed back, the method has panicked
      rename_i b pl heq
      have ⟨i1, hpl⟩ := hd.2 b pl heq
      exact ⟨G_nested hp i1, hpl⟩''', 2)
    rep('''/-- One bracketed write of the adapter. -/''', '''/-- The nested printer hands the buffer back in the mode it was given: the deferred `SetMode` does nothing. -/
theorem G_nested {p : PP} {b : Buffer} (hp : Pre p) (h : %s p.buf b) : G p { p with buf := b.setMode p.buf.mode } := by
  have : b.setMode p.buf.mode = b := setMode_same _ _ (by rw [h.mode, hp.2.1])
  exact ⟨by simp only; rw [this]; exact h, rfl⟩

/-- One bracketed write of the adapter. -/''' % B)
    rep('''    (hstart : Pre (start p).1 ∧ (start p).2 = ⟨p.buf.mode, p.override⟩)
    (hf : ∀ q, Pre q → G q (f q))''', '''    (hstart : Pre (start p).1 ∧ (start p).2 = ⟨p.buf.mode, p.override⟩ ∧ (start p).1 = p)
    (hf : ∀ q, Pre q → G q (f q))''')
    rep('''theorem D_of_GR {p p1 : PP} {r : Res} (h1 : Pre p1) (ho : p1.override = p.override) (h : GR p1 r) : D p r := by
  refine ⟨fun q hq => ?_, h.2⟩
  have g := h.1 q hq
  exact ⟨g.1, by rw [g.2.1]; exact h1.2, by rw [g.2.2, ho]⟩

theorem Pre_setSafe {p : PP} (hp : Pre p) :
    Pre (if p.override ≠ .ovUnsafe then { p with buf := p.buf.setMode .safeEsc } else p) := by
  split
  · exact ⟨inv_setMode _ _ hp.1, by simp [setMode_mode]⟩
  · exact hp
''', set_safe)
    rep('''  apply D_of_GR (Pre_setSafe hp) (by split <;> rfl)
  exact S.doPrintLoop _ _ _ _ (Pre_setSafe hp) ha''', '''  rw [setSafe_eq hp]
  exact S.doPrintLoop _ _ _ _ hp ha''')
    rep('''  have h1 := Pre_setSafe hp
  generalize hp1 : (if p.override ≠ .ovUnsafe then { p with buf := p.buf.setMode .safeEsc } else p) = p1 at h1 ⊢
  have ho : p1.override = p.override := by rw [← hp1]; split <;> rfl
  have h2 : Pre ({ p1 with reordered := false } : PP) := Pre_congr rfl h1
  apply D_of_GR (p1 := { p1 with reordered := false }) h2 ho
  apply GR_bind (p := ({ p1 with reordered := false } : PP)) (S.fmtLoop _ _ _ _ _ h2 ha)''', '''  rw [setSafe_eq hp]
  have h2 : Pre ({ p with reordered := false } : PP) := Pre_congr rfl hp
  apply GR_congr (p1 := { p with reordered := false }) rfl rfl
  apply GR_bind (p := ({ p with reordered := false } : PP)) (S.fmtLoop _ _ _ _ _ h2 ha)''')
    rep('''/-- **The frame theorem for the whole printer**, at every fuel. -/''', header['thm'])
    out = header['top'] + 'namespace Redact.' + ns + '\n' + body
    path = os.path.join(root, ns, 'Inv.lean')
    open(path, 'w').write(out)
    print('wrote', path)

gen('U', 'BU', {
  'top': '''import RedactVerif.Proofs.U.Basics
/-
GENERATED by tools/gen_frames.py from Proofs/PrinterInv.lean — do not edit.
The induction of `PrinterInv.lean` repeated for printing under an `Unsafe` override (`U.Pre`):
every function of the printer model, at every fuel, stays in unsafe mode under the override and
adds nothing but line feeds outside envelopes (`U.G`). The step lemmas are those of
`PrinterInv.lean`, read with the vocabulary of `U/Basics.lean`.
-/
''',
  'thm': '''/-- **Under an `Unsafe` override the whole printer writes inside envelopes**, at every fuel. -/'''},
  '''/-- Under the override `doPrint`/`doPrintf` do not switch to safe mode. -/
theorem setSafe_eq {p : PP} (hp : Pre p) :
    (if p.override ≠ .ovUnsafe then { p with buf := p.buf.setMode .safeEsc } else p) = p := by
  have : ¬ (p.override ≠ .ovUnsafe) := by rw [hp.2.2.1]; decide
  rw [if_neg this]
''')
gen('S', 'BS', {
  'top': '''import RedactVerif.Proofs.S.Basics
/-
GENERATED by tools/gen_frames.py from Proofs/PrinterInv.lean — do not edit.
The induction of `PrinterInv.lean` repeated for printing under a `Safe` override (`S.Pre`), for
values without a redactable operand (`S.ValOk`): every function of the printer model, at every
fuel, stays in safe mode under the override and leaves the validated prefix of the buffer — where
all envelopes are — as it was (`S.G`). The step lemmas are those of `PrinterInv.lean`, read with
the vocabulary of `S/Basics.lean`.
-/
''',
  'thm': '''/-- **Under a `Safe` override the whole printer opens no envelope**, at every fuel. -/'''},
  '''/-- Under the override `doPrint`/`doPrintf` find the buffer in safe mode already. -/
theorem setSafe_eq {p : PP} (hp : Pre p) :
    (if p.override ≠ .ovUnsafe then { p with buf := p.buf.setMode .safeEsc } else p) = p := by
  have : p.override ≠ .ovUnsafe := by rw [hp.2.2]; decide
  rw [if_pos this, setMode_same _ _ hp.2.1]
''')
