#!/bin/sh
# try_mutant.sh <patch.diff> <prop>...: apply a seeded change to /repo, run the quick checks, undo.
P=$1; shift
cd /repo && git diff --quiet || { echo "/repo not clean"; exit 2; }
git -C /repo apply "$P" || exit 2
for c in "$@"; do (cd /verif && ./check $c quick 2>&1 | grep -E "^VIOLATION|^check " | cut -c1-220); done
git -C /repo checkout -- . && git -C /repo clean -fdq
git -C /repo status --short | head -3
# Generated/*.lean now describe the mutant: regenerate them from the restored tree
(cd /verif/extract && GOFLAGS=-mod=mod GOPROXY=off GOSUMDB=off GOTOOLCHAIN=local go build -tags verif -o /tmp/extract.$$ . && /tmp/extract.$$ /repo /verif/lean/RedactVerif/Generated >/dev/null; rm -f /tmp/extract.$$)
