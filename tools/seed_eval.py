#!/usr/bin/env python3
"""seed_eval.py <name> <worktree> <outdir> <prop> [more props]: confirm a seeded change in its scratch
worktree, run the quick checks against it in /repo (apply, check, undo) and archive it under /verif/seeded/<name>."""
import json, os, shutil, subprocess, sys
name, wt, out, props = sys.argv[1], sys.argv[2], sys.argv[3], sys.argv[4:]
conf = subprocess.run(["/verif/tools/confirm_mutant.sh", wt, out], capture_output=True, text=True).stdout
print(conf)
ok = "1 suite-with-patch: PASS" in conf and "FAIL (good)" in conf and "PASS (good)" in conf
tried = subprocess.run(["/verif/tools/try_mutant.sh", out + "/patch.diff"] + props, capture_output=True, text=True).stdout
print(tried)
d = "/verif/seeded/" + name
os.makedirs(d, exist_ok=True)
for f in ("patch.diff", "demo_test.go", "notes.md"):
    if os.path.exists(os.path.join(out, f)):
        shutil.copy(os.path.join(out, f), d)
caught = [l.split()[1].split("=")[1] for l in tried.splitlines() if l.startswith("VIOLATION")]
meta = {"name": name, "breaks_property": props[0], "confirmed": ok, "confirmation": conf.strip().splitlines(),
        "needs_to_manifest": "see notes.md", "checks_run": ["./check %s quick" % p for p in props],
        "caught_by": caught, "check_output": tried.strip().splitlines()}
json.dump(meta, open(d + "/meta.json", "w"), indent=1)
print("archived", d, "confirmed", ok, "caught_by", caught)
