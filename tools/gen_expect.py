#!/usr/bin/env python3
"""Freeze the current regenerated skeleton facts as the expectations of Props/FactsSkel*.lean.

Run by hand after a change to the modelled code has been re-validated (model updated,
correspondence re-run): the expectations are what the model was written against.  The check
never runs this script; on every run it regenerates Generated/Facts.lean from /repo and Lean
compares the two."""
import re, os
root = os.path.join(os.path.dirname(os.path.abspath(__file__)), '..', 'lean', 'RedactVerif')
facts = open(os.path.join(root, 'Generated', 'Facts.lean')).read()
def grab(name):
    m = re.search(r'def %s : List \(String × List String\) := (\[.*?\n?\]\)\])\n' % name, facts, re.S)
    assert m, name
    return m.group(1)
for fname, defname, gen in (('FactsSkelPrinter', 'expectSkelPrinter', 'skelPrinter'),
                            ('FactsSkelBuffer', 'expectSkelBuffer', 'skelBuffer'),
                            ('FactsSkelWriters', 'expectCallsWriters', 'callsWriters')):
    p = os.path.join(root, 'Props', fname + '.lean')
    s = open(p).read()
    i = s.index('def %s : List (String × List String) := ' % defname)
    j = s.index('\n\ntheorem ', i)
    s = s[:i] + 'def %s : List (String × List String) := %s' % (defname, grab(gen)) + s[j:]
    open(p, 'w').write(s)
    print('froze', fname)
